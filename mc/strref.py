"""SMT-LIB string functions on Python str (a str is a sequence of code points), spelled out.
Integers are mathematical integers; the 64-bit wrapping that claripy's BV-typed results imply is
applied by the caller (`& M64`).
"""

from __future__ import annotations

M64 = (1 << 64) - 1


def concat(*ss):
    return "".join(ss)


def length(s):
    return len(s)


def substr(s, i, n):
    """str.substr: the longest substring of s of length at most n starting at i; "" if i or n are out of range"""
    if i < 0 or i >= len(s) or n <= 0:
        return ""
    return s[i : i + min(n, len(s) - i)]


def replace(s, t, u):
    """str.replace: first occurrence of t in s replaced by u; t == "" prepends u"""
    if t == "":
        return u + s
    k = s.find(t)
    if k < 0:
        return s
    return s[:k] + u + s[k + len(t) :]


def contains(s, t):
    return t in s


def prefixof(t, s):
    """str.prefixof t s : t is a prefix of s"""
    return s[: len(t)] == t and len(t) <= len(s)


def suffixof(t, s):
    return len(t) <= len(s) and (s[len(s) - len(t) :] == t)


def indexof(s, t, i):
    """str.indexof: first position >= i where t occurs in s, -1 if none or i out of [0, |s|]"""
    if i < 0 or i > len(s):
        return -1
    if t == "":
        return i
    return s.find(t, i)


def to_int(s):
    """str.to_int: the number s denotes if s is a non-empty string of ASCII digits, else -1"""
    if s == "" or any(c not in "0123456789" for c in s):
        return -1
    return int(s)


def from_int(n):
    """str.from_int: decimal representation of n >= 0, "" for negatives"""
    return str(n) if n >= 0 else ""
