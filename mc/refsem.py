"""Reference semantics: SMT-LIB bitvector / Boolean operations on Python ints, truth tables over
*all* assignments of a small scope, and `den_ast`, which interprets a claripy AST node by node with
these semantics (never calling a claripy backend).

A truth table is a tuple with one entry per assignment (environment) of the scope.
"""

from __future__ import annotations

import itertools


def mask(w: int) -> int:
    return (1 << w) - 1


def sx(v: int, w: int) -> int:
    """signed value of the w-bit pattern v"""
    if w == 0:
        return 0
    return v - (1 << w) if (v >> (w - 1)) & 1 else v


# --- binary BV -> BV -------------------------------------------------------------------------


def bvadd(a, b, w):
    return (a + b) & mask(w)


def bvsub(a, b, w):
    return (a - b) & mask(w)


def bvmul(a, b, w):
    return (a * b) & mask(w)


def bvudiv(a, b, w):
    return mask(w) if b == 0 else a // b


def bvurem(a, b, w):
    return a if b == 0 else a % b


def bvsdiv(a, b, w):
    sa, sb = sx(a, w), sx(b, w)
    if sb == 0:
        return mask(w) if sa >= 0 else 1
    q = abs(sa) // abs(sb)
    if (sa < 0) != (sb < 0):
        q = -q
    return q & mask(w)


def bvsrem(a, b, w):
    sa, sb = sx(a, w), sx(b, w)
    if sb == 0:
        return a
    r = abs(sa) % abs(sb)
    if sa < 0:
        r = -r
    return r & mask(w)


def bvand(a, b, w):
    return a & b


def bvor(a, b, w):
    return a | b


def bvxor(a, b, w):
    return a ^ b


def bvshl(a, b, w):
    return 0 if b >= w else (a << b) & mask(w)


def bvlshr(a, b, w):
    return 0 if b >= w else a >> b


def bvashr(a, b, w):
    s = sx(a, w)
    if b >= w:
        return mask(w) if s < 0 else 0
    return (s >> b) & mask(w)


def rotl(a, b, w):
    if w == 0:
        return a
    b %= w
    return ((a << b) | (a >> (w - b))) & mask(w)


def rotr(a, b, w):
    if w == 0:
        return a
    b %= w
    return ((a >> b) | (a << (w - b))) & mask(w)


BV_BIN = {
    "__add__": bvadd,
    "__sub__": bvsub,
    "__mul__": bvmul,
    "__floordiv__": bvudiv,
    "__truediv__": bvudiv,
    "__mod__": bvurem,
    "SDiv": bvsdiv,
    "SMod": bvsrem,
    "__and__": bvand,
    "__or__": bvor,
    "__xor__": bvxor,
    "__lshift__": bvshl,
    "__rshift__": bvashr,
    "LShR": bvlshr,
    "RotateLeft": rotl,
    "RotateRight": rotr,
}
DIV_OPS = {"__floordiv__", "__truediv__", "__mod__", "SDiv", "SMod"}
NARY = {"__add__", "__mul__", "__and__", "__or__", "__xor__"}

# --- comparisons -----------------------------------------------------------------------------

BV_CMP = {
    "__eq__": lambda a, b, w: a == b,
    "__ne__": lambda a, b, w: a != b,
    "ULT": lambda a, b, w: a < b,
    "ULE": lambda a, b, w: a <= b,
    "UGT": lambda a, b, w: a > b,
    "UGE": lambda a, b, w: a >= b,
    "SLT": lambda a, b, w: sx(a, w) < sx(b, w),
    "SLE": lambda a, b, w: sx(a, w) <= sx(b, w),
    "SGT": lambda a, b, w: sx(a, w) > sx(b, w),
    "SGE": lambda a, b, w: sx(a, w) >= sx(b, w),
}

# --- unary / structural ----------------------------------------------------------------------


def bvneg(a, w):
    return (-a) & mask(w)


def bvnot(a, w):
    return a ^ mask(w)


def bvreverse(a, w):
    assert w % 8 == 0
    return int.from_bytes(a.to_bytes(w // 8, "big"), "little")


def extract(hi, lo, a):
    return (a >> lo) & mask(hi - lo + 1)


def zeroext(n, a, w):
    return a


def signext(n, a, w):
    return sx(a, w) & mask(w + n)


def concat(parts):
    """parts: [(value, width)] most significant first"""
    v = 0
    for p, w in parts:
        v = (v << w) | p
    return v


# ---------------------------------------------------------------------------------------------
# scopes and truth tables
# ---------------------------------------------------------------------------------------------


class Scope:
    """A finite set of named variables: BV variables (name, width) and Bool variables (name, 0).
    Environments are the integers 0 .. N-1; variable k occupies a bit field of the index."""

    def __init__(self, bvs: list[tuple[str, int]], bools: list[str] = ()):
        self.bvs = list(bvs)
        self.bools = list(bools)
        off = 0
        self.field = {}
        for n, w in self.bvs:
            self.field[n] = (off, w)
            off += w
        for n in self.bools:
            self.field[n] = (off, 0)
            off += 1
        self.bits = off
        self.N = 1 << off
        self._tab = {}
        for n, (o, w) in self.field.items():
            if w == 0:
                self._tab[n] = tuple(bool((i >> o) & 1) for i in range(self.N))
            else:
                m = mask(w)
                self._tab[n] = tuple((i >> o) & m for i in range(self.N))

    def var_table(self, name):
        return self._tab[name]

    def const(self, v):
        return (v,) * self.N

    def env(self, i) -> dict:
        return {n: self._tab[n][i] for n in self.field}

    def index_with(self, i, name, value):
        """index of env i with variable `name` set to `value`"""
        o, w = self.field[name]
        if w == 0:
            return (i & ~(1 << o)) | (int(bool(value)) << o)
        return (i & ~(mask(w) << o)) | ((value & mask(w)) << o)


class DenError(Exception):
    """den_ast met an op it does not interpret (never silently ignored)."""


class Den:
    """Node-by-node interpreter of claripy ASTs over a Scope (memoised by object identity)."""

    def __init__(self, scope: Scope):
        self.scope = scope
        self.memo: dict[int, tuple] = {}
        self.keep = []

    def __call__(self, ast):
        k = id(ast)
        r = self.memo.get(k)
        if r is None:
            r = self._den(ast)
            self.memo[k] = r
            self.keep.append(ast)  # keep alive so that id() stays unique
        return r

    def clear(self):
        self.memo.clear()
        self.keep.clear()

    def _den(self, e):
        op = e.op
        a = e.args
        sc = self.scope
        if op == "BVV":
            if a[0] is None:
                raise DenError("ESI")
            return sc.const(a[0] & mask(a[1]))
        if op == "BoolV":
            return sc.const(bool(a[0]))
        if op in ("BVS", "BoolS"):
            name = a[0]
            if name not in sc.field:
                raise DenError(f"variable {name} outside scope")
            return sc.var_table(name)
        if op in BV_CMP:
            A = self(a[0])
            B = self(a[1])
            if hasattr(a[0], "length") and a[0].length is not None:
                w = a[0].length
                f = BV_CMP[op]
                return tuple(f(x, y, w) for x, y in zip(A, B))
            # Bool == / !=
            if op == "__eq__":
                return tuple(x == y for x, y in zip(A, B))
            if op == "__ne__":
                return tuple(x != y for x, y in zip(A, B))
            raise DenError(op)
        if op in BV_BIN:
            w = e.length
            f = BV_BIN[op]
            if len(a) != 2 and op not in NARY:
                raise DenError(f"{op} with {len(a)} args")
            acc = self(a[0])
            for nxt in a[1:]:
                B = self(nxt)
                acc = tuple(f(x, y, w) for x, y in zip(acc, B))
            return acc
        if op == "__neg__":
            w = e.length
            return tuple(bvneg(x, w) for x in self(a[0]))
        if op == "__invert__":
            w = e.length
            return tuple(bvnot(x, w) for x in self(a[0]))
        if op == "Reverse":
            w = e.length
            return tuple(bvreverse(x, w) for x in self(a[0]))
        if op == "Extract":
            hi, lo, b = a
            return tuple(extract(hi, lo, x) for x in self(b))
        if op == "ZeroExt":
            return self(a[1])
        if op == "SignExt":
            n, b = a
            w = b.length
            return tuple(signext(n, x, w) for x in self(b))
        if op == "Concat":
            tabs = [(self(p), p.length) for p in a]
            out = tabs[0][0]
            for t, w in tabs[1:]:
                out = tuple((x << w) | y for x, y in zip(out, t))
            return out
        if op == "If":
            C = self(a[0])
            T = self(a[1])
            F = self(a[2])
            return tuple(t if c else f for c, t, f in zip(C, T, F))
        if op == "And":
            acc = self(a[0])
            for nxt in a[1:]:
                B = self(nxt)
                acc = tuple(x and y for x, y in zip(acc, B))
            return acc
        if op == "Or":
            acc = self(a[0])
            for nxt in a[1:]:
                B = self(nxt)
                acc = tuple(x or y for x, y in zip(acc, B))
            return acc
        if op == "Not":
            return tuple(not x for x in self(a[0]))
        raise DenError(f"uninterpreted op {op}")


def apply_tables(op: str, tabs: list[tuple], widths: list, params=()):
    """Expected table of `op` applied to operand tables (the inductive step of E1).
    widths: operand widths (None for Bool).  params: ints for Extract/ZeroExt/SignExt."""
    if op in BV_BIN:
        f = BV_BIN[op]
        w = widths[0]
        acc = tabs[0]
        for B in tabs[1:]:
            acc = tuple(f(x, y, w) for x, y in zip(acc, B))
        return acc
    if op in BV_CMP:
        if widths[0] is None:
            if op == "__eq__":
                return tuple(x == y for x, y in zip(*tabs))
            return tuple(x != y for x, y in zip(*tabs))
        f = BV_CMP[op]
        w = widths[0]
        return tuple(f(x, y, w) for x, y in zip(*tabs))
    if op == "__neg__":
        return tuple(bvneg(x, widths[0]) for x in tabs[0])
    if op == "__invert__":
        return tuple(bvnot(x, widths[0]) for x in tabs[0])
    if op == "Reverse":
        return tuple(bvreverse(x, widths[0]) for x in tabs[0])
    if op == "Extract":
        hi, lo = params
        return tuple(extract(hi, lo, x) for x in tabs[0])
    if op == "ZeroExt":
        return tabs[0]
    if op == "SignExt":
        return tuple(signext(params[0], x, widths[0]) for x in tabs[0])
    if op == "Concat":
        out = tabs[0]
        for t, w in zip(tabs[1:], widths[1:]):
            out = tuple((x << w) | y for x, y in zip(out, t))
        return out
    if op == "If":
        return tuple(t if c else f for c, t, f in zip(*tabs))
    if op == "And":
        acc = tabs[0]
        for B in tabs[1:]:
            acc = tuple(x and y for x, y in zip(acc, B))
        return acc
    if op == "Or":
        acc = tabs[0]
        for B in tabs[1:]:
            acc = tuple(x or y for x, y in zip(acc, B))
        return acc
    if op == "Not":
        return tuple(not x for x in tabs[0])
    raise DenError(f"apply_tables: {op}")


# ---------------------------------------------------------------------------------------------
# canonical printer for ASTs (case keys, replay files); independent of claripy's repr
# ---------------------------------------------------------------------------------------------


def show(e) -> str:
    import claripy

    if not isinstance(e, claripy.ast.Base):
        return repr(e)
    op = e.op
    if op == "BVV":
        s = f"{e.args[0]}#{e.args[1]}"
    elif op in ("BVS", "BoolS", "StringS"):
        s = str(e.args[0])
    elif op == "FPS":
        s = f"{e.args[0]}:{e.args[1]}"
    elif op == "BoolV":
        s = "T" if e.args[0] else "F"
    else:
        s = f"{op}({','.join(show(x) for x in e.args)})"
    if e.annotations:
        s += "@{" + ",".join(sorted(_show_anno(x) for x in e.annotations)) + "}"
    return s


def _show_anno(a) -> str:
    d = getattr(a, "__dict__", None)
    n = type(a).__name__
    tag = getattr(a, "tag", None)
    if tag is not None:
        return f"{n}:{tag}"
    if d:
        return n + ":" + ",".join(f"{k}={d[k]!r}" for k in sorted(d))
    sl = []
    for k in ("stride", "lower_bound", "upper_bound", "region_id", "region_base_addr"):
        if hasattr(a, k):
            sl.append(f"{k}={getattr(a, k)!r}")
    return n + (":" + ",".join(sl) if sl else "")


def all_envs_product(*domains):
    return itertools.product(*domains)
