"""E2 – value alphabets for the FP / string / wide-BV explorations (C02, C03, C04, C26).

FP values are bit patterns of a sort (fpref.FLOAT / fpref.DOUBLE); strings are Python str.
"""

from __future__ import annotations

from fractions import Fraction

import claripy

from . import fpref
from .fpref import DOUBLE, FLOAT

CL_SORT = {"FLOAT": claripy.FSORT_FLOAT, "DOUBLE": claripy.FSORT_DOUBLE}
CL_RM = {
    "RNE": claripy.fp.RM.RM_NearestTiesEven,
    "RNA": claripy.fp.RM.RM_NearestTiesAwayFromZero,
    "RTZ": claripy.fp.RM.RM_TowardsZero,
    "RTP": claripy.fp.RM.RM_TowardsPositiveInf,
    "RTN": claripy.fp.RM.RM_TowardsNegativeInf,
}


def _r(q, S):
    return fpref.round_fraction(Fraction(q), S, "RNE")


def fp_alphabet(S, size="full"):
    """boundary alphabet of sort S as a sorted list of distinct bit patterns (NaN = the quiet NaN)"""
    one = _r(1, S)
    ulp1 = 1  # next pattern after 1.0
    vals = {
        fpref.zero(0, S),
        fpref.zero(1, S),
        1,  # min subnormal
        (1 << (S.width - 1)) | 1,
        (1 << S.fbits) - 1,  # max subnormal
        (1 << (S.width - 1)) | ((1 << S.fbits) - 1),
        1 << S.fbits,  # min normal
        (1 << (S.width - 1)) | (1 << S.fbits),
        one,
        fpref.neg(one, S),
        one + ulp1,
        one - 1,  # predecessor of 1
        _r(Fraction(3, 2), S),
        _r(Fraction(5, 2), S),
        _r(Fraction(7, 2), S),
        _r(Fraction(1, 2), S),
        _r(Fraction(-1, 2), S),
        _r(Fraction(1, 10), S),
        _r(Fraction(12, 10), S),
        _r(3, S),
        _r(Fraction(1, 3), S),
        _r(1 << (S.sb - 1), S),  # 2^23 / 2^52: ulp = 1
        _r(-(1 << (S.sb - 1)), S),
        _r((1 << S.sb), S),  # 2^24 / 2^53
        _r((1 << S.sb) + 2, S),
        _r(Fraction(255, 1) + Fraction(1, 2), S),
        _r(Fraction(-257, 2), S),  # -128.5
        _r(Fraction(255, 2), S),  # 127.5
        _r(1 << 31, S),
        _r(-(1 << 31), S),
        _r((1 << 31) - 128, S),
        _r(1 << 32, S),
        _r(1 << 63, S),
        _r(-(1 << 63), S),
        _r(1 << 64, S),
        _r(Fraction(-3, 10), S),
        _r(Fraction(-1), S) - 0,
        fpref.max_finite(0, S),
        fpref.max_finite(1, S),
        fpref.max_finite(0, S) - 1,
        fpref.inf(0, S),
        fpref.inf(1, S),
        fpref.qnan(S),
        # halves of the largest / smallest: products and sums that overflow / underflow in each direction
        _r(Fraction(2) ** (S.emax), S),
        _r(Fraction(2) ** (S.emin), S) + 1,
        _r(Fraction(2) ** (S.emin - 1), S),
        _r(Fraction(2) ** (-(S.sb)), S),  # 2^-24: 1 + this is an exact tie
        _r(Fraction(3) * Fraction(2) ** (-(S.sb + 1)), S),
    }
    vals = sorted(vals)
    if size == "small":
        keep = {
            fpref.zero(0, S),
            fpref.zero(1, S),
            1,
            1 << S.fbits,
            one,
            fpref.neg(one, S),
            one + 1,
            _r(Fraction(3, 2), S),
            _r(Fraction(5, 2), S),
            _r(Fraction(1, 10), S),
            _r(Fraction(2) ** (-(S.sb)), S),
            fpref.max_finite(0, S),
            fpref.inf(0, S),
            fpref.inf(1, S),
            fpref.qnan(S),
            _r(Fraction(-257, 2), S),
        }
        vals = [v for v in vals if v in keep]
    return vals


def fpv(bits, S):
    """claripy concrete FP leaf with this pattern (NaN payloads are not preserved by Python floats)"""
    return claripy.FPV(fpref.pyfloat_of_bits(bits, S), CL_SORT[S.name])


def fpv_bits(ast, S):
    """pattern of a concrete claripy FP AST (op FPV)"""
    assert ast.op == "FPV", ast.op
    return fpref.bits_of_pyfloat(ast.args[0], S)


# ---------------------------------------------------------------------------------------------
# strings
# ---------------------------------------------------------------------------------------------

SIGMA = ["a", "b", "0", "5", "-", ".", "(", "\\", "\x00", "\n", "é", "中", "\U0001f600", "u", "{", "}", "*", "[", "+", "?", "$", "^", "|", ")", " "]
SPECIAL_STRINGS = ["\\u{48}", "a.b", "-5", "007", "12", "abc", "aa", "ab", "ba", "\\x41", "a(", "(a", ".*", "a\x00b", "éé", "5a", "+5", " 5", "5 ", "99999999999999999999", "\\u{1F600}", "\\u0041",
                   # digits / numerics outside ASCII, int() conveniences, combining and plane-boundary characters
                   "\u0663", "1\u0662", "\uff15\uff10", "\u00b2", "1_0", "\t5", "5\n", "e\u0301", "\uffff", "\U00010000"]


def string_alphabet(size="full"):
    sig = SIGMA if size == "full" else SIGMA[:14]
    out = [""] + list(sig)
    if size == "full":
        core = ["a", "b", "0", "-", ".", "(", "\\", "\x00", "é", "\U0001f600"]
        out += [p + q for p in core for q in core]
    else:
        core = ["a", "b", "(", "\\"]
        out += [p + q for p in core for q in core]
    out += SPECIAL_STRINGS
    seen = set()
    res = []
    for s in out:
        if s not in seen:
            seen.add(s)
            res.append(s)
    return res


# ---------------------------------------------------------------------------------------------
# wide bitvector boundary constants
# ---------------------------------------------------------------------------------------------


def bv_boundaries(w):
    m = (1 << w) - 1
    c = {0, 1, 2, 3, w - 1, w, w + 1, 2 * w, (1 << (w - 1)) - 1, 1 << (w - 1), (1 << (w - 1)) + 1, m - 1, m, 1 << 62, 1 << 63, (1 << 64) - 1, 1 << 30, 1 << 40, 0x5A}
    return sorted(v for v in c if 0 <= v <= m)
