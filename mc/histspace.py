"""E4 – explicit-state search over solver histories.

State       = the frontend object(s) reached by an event history (rebuilt by replaying the history on
              fresh objects in a fresh thread => fresh z3.Context, so the run is deterministic).
Events      = public frontend calls with arguments from a small alphabet.
Reference   = brute force: M = {assignment | every added constraint holds}, from which every correct
              answer follows.  Constraint/expression tables come from refsem (never from a claripy backend).
Search      = breadth-first; a state whose canonical key was seen is not expanded again; exploration
              stops below a state whose answer was already wrong (minimal failing histories only).
"""

from __future__ import annotations

import hashlib
import pickle
import threading
import weakref

import claripy
from claripy.errors import ClaripyError, UnsatError

from .common import Part, pmap
from .refsem import Den, Scope, mask, sx

# ---------------------------------------------------------------------------------------------
# universes: variables, constraint / expression / extra alphabets
# ---------------------------------------------------------------------------------------------


class Universe:
    def __init__(self, name):
        self.name = name
        if name == "bv3":
            W = 3
            x = claripy.BVS("hx", W, explicit_name=True)
            y = claripy.BVS("hy", W, explicit_name=True)
            c = claripy.BoolS("hc", explicit_name=True)
            self.scope = Scope([("hx", W), ("hy", W)], ["hc"])
            self.K = {
                "x==3": x == 3,
                "x!=0": x != 0,
                "x<u5": claripy.ULT(x, 5),
                "x>s1": claripy.SGT(x, 1),
                "x+y==5": x + y == 5,
                "y==x": y == x,
                "x&1==0": x & 1 == 0,
                "x==1|x==6": claripy.Or(x == 1, x == 6),
                "y>u6": claripy.UGT(y, 6),
                "c": c,
                "!c": claripy.Not(c),
                "F": claripy.false(),
                "x<u2": claripy.ULT(x, 2),
                "x==5": x == 5,
                "x+1==5": x + 1 == 5,
                "x==6": x == 6,
                "y<u2": claripy.ULT(y, 2),
                # optimum-cutting constraints (each removes exactly one extreme value) and a y equality
                "x!=3": x != 3,
                "x!=7": x != 7,
                "x!=4": x != 4,
                "y==2": y == 2,
                # signed comparisons whose bound sits exactly on / next to INT_MIN and INT_MAX of the width
                "x<=s-4": claripy.SLE(x, 4),
                "x<s-3": claripy.SLT(x, 5),
                "-4>=sx": claripy.SGE(claripy.BVV(4, W), x),
                "x>=s3": claripy.SGE(x, 3),
                "x>s2": claripy.SGT(x, 2),
                "x<=s-3": claripy.SLE(x, 5),
                # comparisons already in the shape Z3's simplifier produces (simplify() rewrites nothing)
                "1<=sx": claripy.SLE(claripy.BVV(1, W), x),
                "x<=u5": claripy.ULE(x, 5),
            }
            self.E = {"x": x, "y": y, "x+y": x + y, "x-y": x - y}
            self.X = {"none": (), "x==6": (x == 6,), "y<u2": (claripy.ULT(y, 2),), "y>u6": (claripy.UGT(y, 6),)}
            self.B = {"x<u5": claripy.ULT(x, 5), "x==0": x == 0, "x==3": x == 3, "c": c}
        elif name == "bv2x4":
            W = 2
            x = claripy.BVS("gx", W, explicit_name=True)
            y = claripy.BVS("gy", W, explicit_name=True)
            z = claripy.BVS("gz", W, explicit_name=True)
            u = claripy.BVS("gu", W, explicit_name=True)
            self.scope = Scope([("gx", W), ("gy", W), ("gz", W), ("gu", W)], [])
            self.K = {
                "x==1": x == 1,
                "y<u2": claripy.ULT(y, 2),
                "x+y==3": x + y == 3,
                "z!=0": z != 0,
                "y==z": y == z,
                "x^z==1": x ^ z == 1,
                "u>s0": claripy.SGT(u, 0),
                "u==z+1": u == z + 1,
                "F": claripy.false(),
                "x!=2": x != 2,
                "z<u3": claripy.ULT(z, 3),
                "x==2": x == 2,
                # x<u1 and x>u2 contradict each other without being syntactic negations: an unsatisfiable child that
                # queries on other variables do not touch
                "x<u1": claripy.ULT(x, 1),
                "x>u2": claripy.UGT(x, 2),
            }
            self.E = {"x": x, "y": y, "z": z, "u": u, "x+y": x + y, "x+z": x + z, "y+u": y + u}  # noqa
            self.X = {"none": (), "x==2": (x == 2,), "z==y+1": (z == y + 1,), "u==3": (u == 3,)}
            self.B = {"x==1": x == 1, "y<u2": claripy.ULT(y, 2), "x==z": x == z}
        else:
            raise ValueError(name)
        self.den = Den(self.scope)
        self.N = self.scope.N
        self._ktab = {k: self.den(v) for k, v in self.K.items()}
        self._etab = {k: self.den(v) for k, v in self.E.items()}
        self._xtab = {k: [self.den(a) for a in v] for k, v in self.X.items()}
        self._btab = {k: self.den(v) for k, v in self.B.items()}
        self.ewidth = {k: v.length for k, v in self.E.items()}
        self._mcache = {}

    def models(self, klabels, xlabel="none"):
        key = (frozenset(klabels), xlabel)
        r = self._mcache.get(key)
        if r is None:
            tabs = [self._ktab[k] for k in set(klabels)] + self._xtab[xlabel]
            r = tuple(i for i in range(self.N) if all(t[i] for t in tabs))
            self._mcache[key] = r
        return r

    def values(self, elabel, envs):
        t = self._etab[elabel]
        return {t[i] for i in envs}


_UNIVERSES = {}


def universe(name) -> Universe:
    u = _UNIVERSES.get(name)
    if u is None:
        u = _UNIVERSES[name] = Universe(name)
    return u


# ---------------------------------------------------------------------------------------------
# solver construction
# ---------------------------------------------------------------------------------------------


def make_solver(cls: str, cfg: dict):
    kw = {}
    if cfg.get("track"):
        kw["track"] = True
    if cls == "Solver":
        return claripy.Solver(**kw)
    if cls == "SolverCacheless":
        return claripy.SolverCacheless(**kw)
    if cls == "SolverComposite":
        return claripy.SolverComposite(**kw)
    if cls == "SolverHybrid":
        return claripy.SolverHybrid(**kw)
    if cls == "SolverHybridApprox":
        return claripy.SolverHybrid(approximate_first=True, **kw)
    if cls == "SolverReplacement":
        opts = {k: cfg[k] for k in ("auto_replace", "complex_auto_replace", "replace_constraints", "unsafe_replacement") if k in cfg}
        return claripy.SolverReplacement(**opts)
    if cls == "SolverVSA":
        return claripy.SolverVSA()
    if cls == "SolverReplacementVSA":
        return claripy.SolverReplacement(claripy.SolverVSA(), complex_auto_replace=True, replace_constraints=True)
    raise ValueError(cls)


# ---------------------------------------------------------------------------------------------
# canonical state key (deliberately over-fine: drops nothing)
# ---------------------------------------------------------------------------------------------


def canon(obj, _seen=None, _depth=0):
    import z3

    if _seen is None:
        _seen = {}
    if obj is None or isinstance(obj, bool | int | str | bytes | float):
        return obj
    if isinstance(obj, claripy.ast.Base):
        return ("ast", obj._hash)
    oid = id(obj)
    if oid in _seen:
        return ("ref", _seen[oid])
    if isinstance(obj, list | tuple):
        return tuple(canon(x, _seen, _depth + 1) for x in obj)
    if isinstance(obj, set | frozenset):
        return ("set", tuple(sorted((canon(x, _seen, _depth + 1) for x in obj), key=repr)))
    if isinstance(obj, weakref.WeakSet):
        return ("weakset", tuple(sorted((canon(x, _seen, _depth + 1) for x in list(obj)), key=repr)))
    if isinstance(obj, weakref.WeakValueDictionary | weakref.WeakKeyDictionary):
        return ("weak", tuple(sorted((canon(k, _seen, _depth + 1) for k in list(obj.keys())), key=repr)))
    if isinstance(obj, dict):
        return ("dict", tuple(sorted(((canon(k, _seen, _depth + 1), canon(v, _seen, _depth + 1)) for k, v in obj.items()), key=repr)))
    if isinstance(obj, z3.Solver):
        try:
            return ("z3solver", obj.sexpr(), obj.num_scopes())
        except Exception:
            return ("z3solver", "?")
    if isinstance(obj, z3.AstRef):
        return ("z3", obj.sexpr())
    tn = type(obj).__name__
    if tn == "ModelCache":
        return ("model", tuple(sorted(obj.model.items(), key=repr)))
    if isinstance(obj, claripy.backends.Backend) or tn.startswith("Backend"):
        return ("backend", tn)
    if isinstance(obj, threading.local):
        d = dict(obj.__dict__)
        return ("tls", canon(d, _seen, _depth + 1))
    if hasattr(obj, "__dict__") and _depth < 12:
        _seen[oid] = len(_seen)
        d = obj.__dict__
        return (tn, tuple((k, canon(d[k], _seen, _depth + 1)) for k in sorted(d)))
    return ("obj", tn)


def state_key(*objs) -> str:
    return hashlib.blake2b(repr(tuple(canon(o) for o in objs)).encode(), digest_size=10).hexdigest()


# ---------------------------------------------------------------------------------------------
# events
# ---------------------------------------------------------------------------------------------


def ev_label(ev) -> str:
    return ":".join(str(a) for a in ev)


def parse_ev(label: str):
    return tuple(label.split(":"))


def default_events(uni: Universe, level: str = "full"):
    """the event alphabet for an exact solver class"""
    ev = []
    if uni.name == "bv3":
        adds = ["x==3", "x!=0", "x<u5", "x+y==5", "x==1|x==6", "y>u6", "c", "F"]
        if level == "full":
            adds += ["x>s1", "x&1==0"]
        for k in adds:
            ev.append(("add", k))
        ev += [("sat", "none"), ("sat", "x==6")]
        ev += [("eval", "x", 1, "none"), ("eval", "x", 2, "none"), ("eval", "x", 9, "none"), ("eval", "x", 9, "y<u2"), ("eval", "x", 9, "y>u6"), ("eval", "x+y", 9, "none")]
        ev += [("beval", "x,y", 9, "none"), ("beval", "x,y", 2, "y<u2")]
        for op in ("min", "max"):
            ev += [(op, "x", "u", "none"), (op, "x", "s", "none"), (op, "x", "u", "y<u2"), (op, "x", "u", "x==6"), (op, "x", "s", "y<u2")]
            if level == "full":
                ev += [(op, "x+y", "u", "none"), (op, "x+y", "s", "none")]
        ev += [("sol", "x", 5, "none"), ("sol", "x", 0, "y<u2"), ("sol", "x+y", 7, "none")]
        ev += [("istrue", "x<u5", "none"), ("isfalse", "x==0", "none")]
        ev += [("simplify",), ("downsize",), ("branch",), ("pickle",)]
    else:
        adds = ["x==1", "y<u2", "x+y==3", "z!=0", "y==z", "x^z==1", "u>s0", "u==z+1", "F"]
        for k in adds:
            ev.append(("add", k))
        ev += [("sat", "none"), ("sat", "z==y+1")]
        ev += [("eval", "x", 9, "none"), ("eval", "z", 9, "none"), ("eval", "x+z", 9, "none"), ("eval", "y+u", 2, "none"), ("eval", "x", 9, "z==y+1"), ("eval", "u", 1, "none")]
        ev += [("beval", "x,z", 9, "none"), ("beval", "y,u", 9, "u==3")]
        for op in ("min", "max"):
            ev += [(op, "x", "u", "none"), (op, "z", "s", "none"), (op, "x+z", "u", "none"), (op, "y", "u", "z==y+1"), (op, "y+u", "s", "none")]
        ev += [("sol", "x", 2, "none"), ("sol", "x+y", 3, "none"), ("sol", "z", 0, "x==2")]
        ev += [("simplify",), ("downsize",), ("branch",), ("pickle",)]
    return ev


# ---------------------------------------------------------------------------------------------
# applying an event to the implementation and to the reference
# ---------------------------------------------------------------------------------------------


class Run:
    """one execution: a solver, the reference constraint list, the answer log"""

    def __init__(self, uni, cls, cfg):
        self.uni = uni
        self.cls = cls
        self.cfg = cfg
        self.s = make_solver(cls, cfg)
        self.ref: list[str] = []
        self.targets = [[self.s, self.ref]]  # multi-solver histories (C14/C15): [solver, reference list]
        self.cur = 0
        self.log: list = []
        self.failure = None  # (reason, detail)
        self.approx = cfg.get("approx", False)


def _norm_vals(vals, w):
    return tuple(sorted(v & mask(w) if isinstance(v, int) else v for v in vals))


def apply_event(run: Run, ev, check=True):
    """execute ev on run.s; compare with the reference if check; append to run.log.
    returns True if the answer was acceptable."""
    if ev[0] == "@":  # ("@", target, *event): apply the event to solver number `target`
        t = int(ev[1])
        run.targets[run.cur] = [run.s, run.ref]
        run.cur = t
        run.s, run.ref = run.targets[t]
        ok = apply_event(run, tuple(ev[2:]), check=check)
        run.targets[t] = [run.s, run.ref]
        if run.log:
            lab, a = run.log[-1]
            run.log[-1] = (f"@:{t}:{lab}", a)
        return ok
    if ev[0] == "fork":  # ("fork", target): targets.append(targets[target].branch())
        t = int(ev[1])
        run.targets[run.cur] = [run.s, run.ref]
        try:
            child = run.targets[t][0].branch()
        except Exception as e:
            run.log.append((ev_label(ev), ("EXC", type(e).__name__)))
            run.failure = dict(reason="raised:" + type(e).__name__, msg=str(e)[:200])
            return False
        run.targets.append([child, list(run.targets[t][1])])
        run.log.append((ev_label(ev), ("forked", len(run.targets) - 1)))
        return True
    uni = run.uni
    s = run.s
    kind = ev[0]
    ok = True
    ans = None
    detail = None

    def bad(reason, **kw):
        nonlocal ok, detail
        ok = False
        detail = dict(reason=reason, **kw)

    xk = {"exact": False} if run.cfg.get("exact_false") else ({"exact": True} if run.cfg.get("exact_true") else {})

    try:
        if kind == "add":
            s.add(uni.K[ev[1]])
            run.ref.append(ev[1])
            ans = ("added",)
        elif kind == "sat":
            r = s.satisfiable(extra_constraints=uni.X[ev[1]], **xk)
            ans = ("sat", bool(r))
            if check:
                exp = len(uni.models(run.ref, ev[1])) > 0
                if run.approx:
                    if exp and not r:
                        bad("approx-unsat-but-sat", got=r)
                elif bool(r) != exp:
                    bad("sat-wrong", expected=exp, got=r)
        elif kind == "eval":
            _, e, n, x = ev
            n = int(n)
            w = uni.ewidth[e]
            envs = uni.models(run.ref, x)
            V = uni.values(e, envs)
            try:
                r = s.eval(uni.E[e], n, extra_constraints=uni.X[x], **xk)
                vals = [v & mask(w) for v in r]
                ans = ("vals", _norm_vals(r, w))
                if check:
                    if not V:
                        if not run.approx:
                            bad("values-on-unsat", got=list(r))
                    elif run.approx:
                        if len(vals) < n and not V <= set(vals):
                            bad("approx-eval-excludes", expected=sorted(V), got=sorted(vals))
                    elif not (set(vals) <= V and len(set(vals)) == len(vals) and len(vals) == min(n, len(V))):
                        bad("eval-wrong", feasible=sorted(V), n=n, got=list(r))
            except UnsatError:
                ans = ("UNSAT",)
                if check and V:
                    bad("unsat-but-sat", feasible=sorted(V))
        elif kind == "beval":
            _, es, n, x = ev
            n = int(n)
            els = es.split(",")
            envs = uni.models(run.ref, x)
            VT = {tuple(uni._etab[e][i] for e in els) for i in envs}
            try:
                r = s.batch_eval([uni.E[e] for e in els], n, extra_constraints=uni.X[x], **xk)
                rows = [tuple(v & mask(uni.ewidth[e]) for v, e in zip(row, els)) for row in r]
                ans = ("rows", tuple(sorted(rows)))
                if check:
                    if not VT:
                        if not run.approx:
                            bad("values-on-unsat", got=rows)
                    elif run.approx:
                        if len(rows) < n and not VT <= set(rows):
                            bad("approx-eval-excludes", got=rows)
                    elif not (set(rows) <= VT and len(set(rows)) == len(rows) and len(rows) == min(n, len(VT))):
                        bad("beval-wrong", feasible=sorted(VT)[:12], n=n, got=rows)
            except UnsatError:
                ans = ("UNSAT",)
                if check and VT:
                    bad("unsat-but-sat", feasible=sorted(VT)[:8])
        elif kind in ("min", "max"):
            _, e, sg, x = ev
            signed = sg == "s"
            w = uni.ewidth[e]
            envs = uni.models(run.ref, x)
            V = uni.values(e, envs)
            f = s.min if kind == "min" else s.max
            try:
                r = f(uni.E[e], extra_constraints=uni.X[x], signed=signed, **xk)
                if r is None:  # the VSA backend answers None for an empty value set
                    ans = ("UNSAT",)
                    if check and V:
                        bad("unsat-but-sat", feasible=sorted(V))
                    run.log.append((ev_label(ev), ans))
                    if not ok:
                        run.failure = detail
                    return ok
                ans = ("opt", r & mask(w))
                if check:
                    if not V:
                        if not run.approx:
                            bad("value-on-unsat", got=r)
                    else:
                        keyf = (lambda v: sx(v, w)) if signed else (lambda v: v)
                        exp = (min if kind == "min" else max)(V, key=keyf)
                        if run.approx:
                            rv = sx(r & mask(w), w) if signed else r & mask(w)
                            if (kind == "min" and rv > keyf(exp)) or (kind == "max" and rv < keyf(exp)):
                                bad("approx-bound-excludes", expected=exp, got=r)
                        elif (r & mask(w)) != exp:
                            bad(kind + "-wrong", expected_pattern=exp, got=r, feasible=sorted(V))
            except UnsatError:
                ans = ("UNSAT",)
                if check and V:
                    bad("unsat-but-sat", feasible=sorted(V))
        elif kind == "sol":
            _, e, v, x = ev
            v = int(v)
            envs = uni.models(run.ref, x)
            V = uni.values(e, envs)
            try:
                r = s.solution(uni.E[e], v, extra_constraints=uni.X[x], **xk)
                ans = ("sol", bool(r))
                if check:
                    if run.approx:
                        if v in V and not r:
                            bad("approx-solution-excludes", got=r)
                    elif bool(r) != (v in V):
                        bad("solution-wrong", expected=v in V, got=r)
            except UnsatError:
                ans = ("UNSAT",)
                if check and envs:
                    bad("unsat-but-sat", feasible=sorted(V))
        elif kind in ("istrue", "isfalse"):
            _, b, x = ev
            envs = uni.models(run.ref, x)
            f = s.is_true if kind == "istrue" else s.is_false
            r = f(uni.B[b], extra_constraints=uni.X[x], **xk)
            ans = (kind, bool(r))
            if check and r:
                t = uni._btab[b]
                holds = all(t[i] for i in envs) if kind == "istrue" else all(not t[i] for i in envs)
                if not holds:
                    bad(kind + "-lies", got=r)
        elif kind == "simplify":
            s.simplify()
            ans = ("simplified",)
            if check and hasattr(s, "constraints") and not run.approx and "Composite" not in run.cls:
                try:
                    tabs = [uni.den(c) for c in s.constraints]
                    after = tuple(i for i in range(uni.N) if all(t[i] for t in tabs))
                    if after != uni.models(run.ref):
                        bad("simplify-changed-models", before=len(uni.models(run.ref)), after=len(after))
                except Exception:
                    pass
        elif kind == "downsize":
            s.downsize()
            ans = ("downsized",)
        elif kind == "branch":
            run.s = s.branch()
            ans = ("branched",)
        elif kind == "blank":
            run.s = s.blank_copy()  # a fresh solver of the same kind: no constraints
            run.ref = []
            ans = ("blank",)
        elif kind == "forkdrop":
            s.branch()  # a sibling is created and dropped; s itself carries on
            ans = ("forkdropped",)
        elif kind == "pickle":
            run.s = pickle.loads(pickle.dumps(s, -1))
            ans = ("pickled",)
        else:
            raise ValueError(f"unknown event {ev}")
    except UnsatError:
        ans = ("UNSAT",)
        xl = ev[2] if kind in ("istrue", "isfalse") else "none"  # UnsatError is fine when constraints + extras have no model
        if check and uni.models(run.ref, xl) and kind not in ("add",):
            bad("unsat-but-sat")
    except ClaripyError as e:
        from claripy.errors import BackendError, ClaripyFrontendError

        ans = ("EXC", type(e).__name__)
        if run.approx and isinstance(e, ClaripyFrontendError | BackendError):
            ans = ("UNSUPPORTED",)  # an approximate solver may decline a query; declining excludes nothing
        else:
            bad("raised:" + type(e).__name__, msg=str(e)[:200])
    except Exception as e:  # anything else is a violation of "never crashes" for this call
        ans = ("EXC", type(e).__name__)
        bad("raised:" + type(e).__name__, msg=str(e)[:200])
    run.log.append((ev_label(ev), ans))
    if not ok:
        run.failure = detail
    return ok


# ---------------------------------------------------------------------------------------------
# running a history (fresh thread => fresh z3 context)
# ---------------------------------------------------------------------------------------------


def run_history(uni_name, cls, cfg, hist, check_all=False, want_key=True, hooks=None):
    """hist: tuple of event tuples.  Returns dict(ok, key, failure, log, failed_at)."""
    out = {}

    def body():
        try:
            uni = universe(uni_name)
            if cfg.get("reuse") is not None:
                claripy.backends.z3.reuse_z3_solver = bool(cfg.get("reuse"))
            run = Run(uni, cls, cfg)
            if hooks and hooks.get("start"):
                hooks["start"](run)
            ok = True
            failed_at = None
            for i, ev in enumerate(hist):
                last = i == len(hist) - 1
                if hooks and hooks.get("before"):
                    hooks["before"](run, i, ev)
                ok = apply_event(run, ev, check=(check_all or last))
                if not ok:
                    failed_at = i
                    break
            out.update(ok=ok, failure=run.failure, log=run.log, failed_at=failed_at, nref=len(run.ref))
            if want_key and ok:
                run.targets[run.cur] = [run.s, run.ref]
                out["key"] = state_key(tuple(t[0] for t in run.targets), tuple(tuple(sorted(t[1])) for t in run.targets))
            if hooks and hooks.get("end"):
                hooks["end"](run, out)
        except BaseException as e:  # harness error
            import traceback

            out.update(ok=False, harness_error=traceback.format_exc()[-1200:])

    t = threading.Thread(target=body)
    t.start()
    t.join()
    return out


# ---------------------------------------------------------------------------------------------
# breadth-first exploration, level by level, parallel over histories
# ---------------------------------------------------------------------------------------------

_EXP = {}


def _expand(args):
    """worker: extend each history in the chunk by every event; returns per-execution results"""
    hists = args
    cfgd = _EXP
    uni_name, cls, cfg, events = cfgd["uni"], cfgd["cls"], cfgd["cfg"], cfgd["events"]
    max_adds = cfgd.get("max_adds")
    res = []
    for h in hists:
        nadds = sum(1 for e in h if e[0] == "add")
        for ev in events:
            if ev[0] == "add" and max_adds is not None and nadds >= max_adds:
                continue
            if ev[0] == "add" and any(e == ev for e in h):
                continue  # adding the same constraint twice is covered by the deduplicator tests; keeps the space small
            hh = h + (ev,)
            o = run_history(uni_name, cls, cfg, hh)
            res.append((hh, o.get("ok"), o.get("key"), o.get("failure"), o.get("harness_error"), o.get("failed_at"), o.get("log")))
    return res


def explore(report, pid, uni_name, cls, cfg, events, depth, max_adds=2, tag="", sig_prefix=None, frontier_cap=None, merge=True):
    """BFS over histories.  Failures are reported with sig = <cls>[tag]:<event kind>:<reason> and
    case = canonical history string.
    merge=False: no state merging at all (every history whose proper prefixes all answered correctly is
    executed), so the set of failing histories is a function of the implementation's answers only – used
    where exact failing-case sets are recorded as known findings."""
    _EXP.clear()
    _EXP.update(uni=uni_name, cls=cls, cfg=cfg, events=events, max_adds=max_adds)
    seen = set()
    frontier = [()]
    cfgs = cls + (("[" + tag + "]") if tag else "")
    total_exec = 0
    for d in range(1, depth + 1):
        chunks = [frontier[i::64] for i in range(64)]
        chunks = [c for c in chunks if c]
        nxt = []
        level = []
        for res in pmap(_expand, chunks):
            if isinstance(res, dict):  # a crashed worker (common._wrap)
                report.merge(res)
                continue
            level.extend(res)
        # the representative history of a state must not depend on completion order or VERIF_SEED:
        # process the whole level in canonical (label) order
        level.sort(key=lambda r: [ev_label(e) for e in r[0]])
        for res in (level,):
            for hh, ok, key, failure, herr, failed_at, log in res:
                total_exec += 1
                report.count("transitions")
                report.count(f"executions_{cfgs}")
                if herr:
                    report.oracle_errors.append(f"{cfgs} {[ev_label(e) for e in hh]}: {herr}")
                    continue
                if not ok:
                    if failed_at is not None and failed_at < len(hh) - 1:
                        # an unchecked prefix event raised: the prefix is itself a failing history reported elsewhere
                        continue
                    last = hh[-1]
                    reason = (failure or {}).get("reason", "?")
                    sig = f"{sig_prefix or cfgs}:{last[0]}:{reason}"
                    case = f"{cfgs}|" + " ; ".join(ev_label(e) for e in hh)
                    report.fail(sig, case, failure, {"uni": uni_name, "cls": cls, "cfg": cfg, "hist": [list(e) for e in hh]})
                    continue
                if key not in seen or not merge:
                    seen.add(key)
                    nxt.append(hh)
                    report.sample({"cls": cfgs, "history": [ev_label(e) for e in hh], "log": log[-1:]}, limit=6)
        nxt.sort(key=lambda h: [ev_label(e) for e in h])
        if frontier_cap and len(nxt) > frontier_cap:
            report.exhaustive = False
            report.extra.setdefault("caps", []).append(f"{cfgs}: frontier at depth {d} capped to {frontier_cap} of {len(nxt)}")
            nxt = nxt[:frontier_cap]
        frontier = nxt
        report.extra.setdefault("levels", []).append(f"{cfgs}: depth {d}: executions so far {total_exec}, distinct states {len(seen)}")
        if not frontier:
            break
    report.count("states", len(seen))
    return seen


def replay_history(rp, check_all=True):
    hist = tuple(tuple(e) for e in rp["hist"])
    return run_history(rp["uni"], rp["cls"], rp["cfg"], hist, check_all=check_all)


# ---------------------------------------------------------------------------------------------
# trees of branched solvers (C14): events carry a target, `fork` creates a new target
# ---------------------------------------------------------------------------------------------

_TREE = {}


def lineage(hist):
    """per-target projection: the events a target (and its ancestors up to the fork) experienced"""
    lin = {0: []}
    n = 1
    for ev in hist:
        if ev[0] == "@":
            lin[int(ev[1])].append(tuple(ev[2:]))
        elif ev[0] == "fork":
            t = int(ev[1])
            lin[n] = [*lin[t], ("branch",)]
            lin[t].append(("forkdrop",))
            n += 1
    return lin


def _tree_enabled(hist, cfgd):
    pre, post = cfgd["pre"], cfgd["post"]
    nforks = sum(1 for e in hist if e[0] == "fork")
    ntargets = 1 + nforks
    if nforks == 0:
        out = [("fork", 0)]
        if len(hist) < cfgd["pre_depth"]:
            out += [("@", 0, *e) for e in pre]
        return out
    first_fork = next(i for i, e in enumerate(hist) if e[0] == "fork")
    if len(hist) - first_fork - 1 >= cfgd["post_depth"]:
        return []
    out = []
    for t in range(ntargets):
        out += [("@", t, *e) for e in post]
        if nforks < cfgd["max_forks"]:
            out.append(("fork", t))
    return out


def _expand_tree(hists):
    cfgd = _TREE
    uni_name, cls, cfg = cfgd["uni"], cfgd["cls"], cfgd["cfg"]
    res = []
    for h in hists:
        for ev in _tree_enabled(h, cfgd):
            hh = h + (ev,)
            o = run_history(uni_name, cls, cfg, hh)
            leak = None
            if not o.get("ok") and not o.get("harness_error") and o.get("failed_at") == len(hh) - 1 and ev[0] == "@":
                # differential: does the target's own projection answer this call correctly?
                proj = tuple(lineage(hh)[int(ev[1])])
                po = run_history(uni_name, cls, cfg, proj, want_key=False)
                leak = bool(po.get("ok"))
            if o.get("ok") and cfg.get("approx") and ev[0] == "@" and ev[2] in ("sat", "eval", "beval", "min", "max", "sol"):
                # approximate solvers: no exact reference, so compare with the member's own projection literally
                t = int(ev[1])
                others = any(e[0] == "@" and int(e[1]) != t for e in hh)
                if others:
                    proj = tuple(lineage(hh)[t])
                    po = run_history(uni_name, cls, cfg, proj, want_key=False)
                    if po.get("ok") and po.get("log") and o.get("log") and po["log"][-1][1] != o["log"][-1][1]:
                        o["ok"] = False
                        o["failed_at"] = len(hh) - 1
                        o["failure"] = dict(reason="answer-changed-by-sibling", alone=po["log"][-1][1], interleaved=o["log"][-1][1])
                        leak = True
            res.append((hh, o.get("ok"), o.get("key"), o.get("failure"), o.get("harness_error"), o.get("failed_at"), leak))
    return res


def explore_tree(report, uni_name, cls, cfg, pre, post, pre_depth, post_depth, max_forks=1, tag=""):
    _TREE.clear()
    _TREE.update(uni=uni_name, cls=cls, cfg=cfg, pre=pre, post=post, pre_depth=pre_depth, post_depth=post_depth, max_forks=max_forks)
    seen = set()
    frontier = [()]
    cfgs = cls + (("[" + tag + "]") if tag else "")
    total = 0
    d = 0
    while frontier:
        d += 1
        chunks = [c for c in (frontier[i::64] for i in range(64)) if c]
        nxt = []
        level = []
        for res in pmap(_expand_tree, chunks):
            if isinstance(res, dict):
                report.merge(res)
                continue
            level.extend(res)
        level.sort(key=lambda r: [ev_label(e) for e in r[0]])  # canonical order: see explore()
        for res in (level,):
            for hh, ok, key, failure, herr, failed_at, leak in res:
                total += 1
                report.count("transitions")
                report.count(f"executions_{cfgs}")
                if herr:
                    report.oracle_errors.append(f"{cfgs} {[ev_label(e) for e in hh]}: {herr}")
                    continue
                if not ok:
                    if failed_at is not None and failed_at < len(hh) - 1:
                        continue
                    if hh[-1][0] == "fork":
                        report.fail(f"{cfgs}:fork:{(failure or {}).get('reason')}", f"{cfgs}|" + " ; ".join(ev_label(e) for e in hh), failure, {"uni": uni_name, "cls": cls, "cfg": cfg, "hist": [list(e) for e in hh]})
                        continue
                    if leak:
                        last = hh[-1]
                        sig = f"{cfgs}:leak:{last[2]}:{(failure or {}).get('reason')}"
                        report.fail(sig, f"{cfgs}|" + " ; ".join(ev_label(e) for e in hh), failure, {"uni": uni_name, "cls": cls, "cfg": cfg, "hist": [list(e) for e in hh]})
                    else:
                        report.count("wrong_but_not_a_leak")  # the projection is wrong as well: C11-C13's business
                    continue
                if key not in seen:
                    seen.add(key)
                    nxt.append(hh)
                    if sum(1 for e in hh if e[0] == "fork"):
                        report.sample({"cls": cfgs, "history": [ev_label(e) for e in hh]}, limit=8)
        nxt.sort(key=lambda h: [ev_label(e) for e in h])
        frontier = nxt
        report.extra.setdefault("levels", []).append(f"{cfgs}: step {d}: executions so far {total}, distinct states {len(seen)}")
    report.count("states", len(seen))
