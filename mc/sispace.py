"""E3 – value-level state space of the VSA domain.

State = a StridedInterval value (bits, stride, lower, upper); seeds = every well-formed SI of a
width; successors = results of every operation (so the non-aligned / over-strided forms that only
the implementation produces become inputs too).  The oracle is the concretisation gamma and
brute-force application of the concrete operation to all member pairs.
"""

from __future__ import annotations

from claripy.backends.backend_vsa.strided_interval import StridedInterval

from .refsem import mask, sx
from . import refsem as R


def key(si) -> str:
    if si.is_empty:
        return f"{si.bits}:EMPTY"
    return f"{si.bits}:{si.stride}[{si.lower_bound},{si.upper_bound}]" + ("R" if si._reversed else "")


def mk(bits, stride, lb, ub) -> StridedInterval:
    return StridedInterval(bits=bits, stride=stride, lower_bound=lb, upper_bound=ub)


def from_key(k: str) -> StridedInterval:
    bits, rest = k.split(":", 1)
    bits = int(bits)
    if rest == "EMPTY":
        return StridedInterval.empty(bits)
    rev = rest.endswith("R")
    rest = rest.rstrip("R")
    stride, b = rest.split("[")
    lb, ub = b.rstrip("]").split(",")
    si = mk(bits, int(stride), int(lb), int(ub))
    if rev:
        si._reversed = True
    return si


_gamma_cache: dict[tuple, frozenset] = {}


def gamma(si) -> frozenset:
    """our definition of the concretisation: lb, lb+s, ... while the distance from lb (mod 2^w)
    does not exceed (ub - lb) mod 2^w; stride 0 = the single value lb; bottom = {}"""
    if si.is_empty:
        return frozenset()
    k = (si.bits, si.stride, si.lower_bound, si.upper_bound)
    r = _gamma_cache.get(k)
    if r is not None:
        return r
    w = si.bits
    m = mask(w)
    lb, ub, s = si.lower_bound & m, si.upper_bound & m, si.stride
    if s == 0:
        r = frozenset([lb]) if lb == ub else frozenset([lb])
    else:
        dist = (ub - lb) & m
        r = frozenset((lb + i) & m for i in range(0, dist + 1, s))
    _gamma_cache[k] = r
    return r


def seeds(w: int) -> list[StridedInterval]:
    """every well-formed strided interval of width w: integers, every (lb, stride, count) whose span
    stays within one turn of the circle (incl. wrapping ones and TOP), and bottom"""
    out = {}
    n = 1 << w
    for lb in range(n):
        out[key(mk(w, 0, lb, lb))] = None
        for s in range(1, n):
            for cnt in range(1, (n - 1) // s + 1):
                ub = (lb + cnt * s) & (n - 1)
                si = mk(w, s, lb, ub)
                out[key(si)] = None
    out[key(StridedInterval.top(w))] = None
    res = [from_key(k) for k in out]
    return res


def is_seed_shaped(si) -> bool:
    """aligned upper bound, stride < 2^w"""
    if si.is_empty or si.stride == 0:
        return True
    m = mask(si.bits)
    return ((si.upper_bound - si.lower_bound) & m) % si.stride == 0 and si.stride <= m


# ---------------------------------------------------------------------------------------------
# operations: name -> (abstract callable, concrete callable or None, kind)
# ---------------------------------------------------------------------------------------------

BIN_OPS = {
    "add": (lambda a, b: a + b, R.bvadd),
    "sub": (lambda a, b: a - b, R.bvsub),
    "mul": (lambda a, b: a * b, R.bvmul),
    "udiv": (lambda a, b: a // b, R.bvudiv),
    "sdiv": (lambda a, b: a.sdiv(b), R.bvsdiv),
    "mod": (lambda a, b: a % b, R.bvurem),
    "and": (lambda a, b: a & b, R.bvand),
    "or": (lambda a, b: a | b, R.bvor),
    "xor": (lambda a, b: a ^ b, R.bvxor),
    "lshift": (lambda a, b: a << b, R.bvshl),
    "rshift_arith": (lambda a, b: a >> b, R.bvashr),
    "rshift_logical": (lambda a, b: a.LShR(b), R.bvlshr),
}
DIV_LIKE = {"udiv", "sdiv", "mod"}

CMP_OPS = {
    "eq": (lambda a, b: a == b, R.BV_CMP["__eq__"]),
    "ne": (lambda a, b: a != b, R.BV_CMP["__ne__"]),
    "ULT": (lambda a, b: a.ULT(b), R.BV_CMP["ULT"]),
    "ULE": (lambda a, b: a.ULE(b), R.BV_CMP["ULE"]),
    "UGT": (lambda a, b: a.UGT(b), R.BV_CMP["UGT"]),
    "UGE": (lambda a, b: a.UGE(b), R.BV_CMP["UGE"]),
    "SLT": (lambda a, b: a.SLT(b), R.BV_CMP["SLT"]),
    "SLE": (lambda a, b: a.SLE(b), R.BV_CMP["SLE"]),
    "SGT": (lambda a, b: a.SGT(b), R.BV_CMP["SGT"]),
    "SGE": (lambda a, b: a.SGE(b), R.BV_CMP["SGE"]),
}

UN_OPS = {
    "neg": (lambda a: -a, R.bvneg),
    "not": (lambda a: ~a, R.bvnot),
}


def unary_param_ops(w):
    """(name, abstract fn, concrete fn(value)->value, result width)"""
    out = []
    for hi in range(w):
        for lo in range(hi + 1):
            out.append((f"extract{hi}:{lo}", (lambda a, hi=hi, lo=lo: a.extract(hi, lo)), (lambda v, hi=hi, lo=lo: R.extract(hi, lo, v)), hi - lo + 1))
    for k in (1, 2):
        out.append((f"zext{k}", (lambda a, k=k: a.zero_extend(a.bits + k)), (lambda v: v), w + k))
        out.append((f"sext{k}", (lambda a, k=k: a.sign_extend(a.bits + k)), (lambda v, k=k: R.signext(k, v, w)), w + k))
    return out


def bool_values(br) -> set:
    """truth values a BoolResult admits"""
    return set(br.value)
