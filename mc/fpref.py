"""Exact IEEE-754 reference: values are (Sort, bit pattern); arithmetic is done on exact rationals and
rounded once, explicitly, in the requested mode.  No Python float arithmetic is used to *decide* a
result (floats appear only in the hardware self-test).

Rounding modes: "RNE", "RNA", "RTZ", "RTP", "RTN".
A result of `None` means "SMT-LIB / IEEE leave it unspecified here" (NaN payloads aside, which are
represented by the single token NAN).
"""

from __future__ import annotations

from fractions import Fraction
from math import isqrt

RMS = ["RNE", "RNA", "RTZ", "RTP", "RTN"]
NAN = "NaN"


class Sort:
    def __init__(self, eb, sb, name):
        self.eb, self.sb, self.name = eb, sb, name
        self.width = eb + sb
        self.bias = (1 << (eb - 1)) - 1
        self.emin = 1 - self.bias
        self.emax = self.bias
        self.fbits = sb - 1  # stored fraction bits

    def __repr__(self):
        return self.name


FLOAT = Sort(8, 24, "FLOAT")
DOUBLE = Sort(11, 53, "DOUBLE")

# ---------------------------------------------------------------------------------------------
# encode / decode
# ---------------------------------------------------------------------------------------------


def fields(bits, S):
    sign = (bits >> (S.width - 1)) & 1
    e = (bits >> S.fbits) & ((1 << S.eb) - 1)
    f = bits & ((1 << S.fbits) - 1)
    return sign, e, f


def is_nan(bits, S):
    _, e, f = fields(bits, S)
    return e == (1 << S.eb) - 1 and f != 0


def is_inf(bits, S):
    _, e, f = fields(bits, S)
    return e == (1 << S.eb) - 1 and f == 0


def is_zero(bits, S):
    _, e, f = fields(bits, S)
    return e == 0 and f == 0


def sign_of(bits, S):
    return (bits >> (S.width - 1)) & 1


def inf(sign, S):
    return (sign << (S.width - 1)) | (((1 << S.eb) - 1) << S.fbits)


def zero(sign, S):
    return sign << (S.width - 1)


def max_finite(sign, S):
    return (sign << (S.width - 1)) | (((1 << S.eb) - 2) << S.fbits) | ((1 << S.fbits) - 1)


def qnan(S):
    return (((1 << S.eb) - 1) << S.fbits) | (1 << (S.fbits - 1))


def to_fraction(bits, S) -> Fraction:
    """exact value of a finite pattern"""
    sign, e, f = fields(bits, S)
    if e == 0:
        v = Fraction(f, 1) * Fraction(2) ** (S.emin - S.fbits)
    else:
        v = Fraction((1 << S.fbits) | f, 1) * Fraction(2) ** (e - S.bias - S.fbits)
    return -v if sign else v


def _floor_log2(a: Fraction) -> int:
    n, d = a.numerator, a.denominator
    e = n.bit_length() - d.bit_length()
    if Fraction(2) ** e > a:
        e -= 1
    elif Fraction(2) ** (e + 1) <= a:
        e += 1
    return e


def round_fraction(q: Fraction, S, rm, zero_sign=0):
    """the pattern of q rounded to S in mode rm (q exact; q == 0 gives a zero of sign zero_sign)"""
    if q == 0:
        return zero(zero_sign, S)
    s = 1 if q < 0 else 0
    a = -q if s else q
    e = max(_floor_log2(a), S.emin)
    quantum = Fraction(2) ** (e - S.fbits)
    m = a / quantum
    mi = m.numerator // m.denominator
    rem = m - mi
    up = False
    if rem != 0:
        if rm == "RNE":
            up = rem > Fraction(1, 2) or (rem == Fraction(1, 2) and (mi & 1))
        elif rm == "RNA":
            up = rem >= Fraction(1, 2)
        elif rm == "RTZ":
            up = False
        elif rm == "RTP":
            up = s == 0
        elif rm == "RTN":
            up = s == 1
        else:
            raise ValueError(rm)
    if up:
        mi += 1
    if mi == (1 << S.sb):
        mi >>= 1
        e += 1
    if e > S.emax:
        if rm in ("RNE", "RNA"):
            return inf(s, S)
        if rm == "RTZ":
            return max_finite(s, S)
        if rm == "RTP":
            return inf(0, S) if s == 0 else max_finite(1, S)
        return inf(1, S) if s == 1 else max_finite(0, S)
    if mi == 0:
        return zero(s, S)
    if mi < (1 << S.fbits):  # subnormal (e == emin)
        return (s << (S.width - 1)) | mi
    return (s << (S.width - 1)) | ((e + S.bias) << S.fbits) | (mi - (1 << S.fbits))


# ---------------------------------------------------------------------------------------------
# arithmetic (operands and results are patterns of sort S; NaN results are the token NAN)
# ---------------------------------------------------------------------------------------------


def _cls(b, S):
    if is_nan(b, S):
        return "nan"
    if is_inf(b, S):
        return "inf"
    if is_zero(b, S):
        return "zero"
    return "fin"


def add(a, b, S, rm):
    ca, cb = _cls(a, S), _cls(b, S)
    if "nan" in (ca, cb):
        return NAN
    sa, sb_ = sign_of(a, S), sign_of(b, S)
    if ca == "inf" and cb == "inf":
        return a if sa == sb_ else NAN
    if ca == "inf":
        return a
    if cb == "inf":
        return b
    if ca == "zero" and cb == "zero":
        if sa == sb_:
            return zero(sa, S)
        return zero(1 if rm == "RTN" else 0, S)
    q = to_fraction(a, S) + to_fraction(b, S)
    return round_fraction(q, S, rm, zero_sign=1 if rm == "RTN" else 0)


def neg(a, S):
    return a ^ (1 << (S.width - 1))


def fabs(a, S):
    return a & ~(1 << (S.width - 1))


def sub(a, b, S, rm):
    if is_nan(b, S) or is_nan(a, S):
        return NAN
    return add(a, neg(b, S), S, rm)


def mul(a, b, S, rm):
    ca, cb = _cls(a, S), _cls(b, S)
    if "nan" in (ca, cb):
        return NAN
    s = sign_of(a, S) ^ sign_of(b, S)
    if (ca == "inf" and cb == "zero") or (ca == "zero" and cb == "inf"):
        return NAN
    if "inf" in (ca, cb):
        return inf(s, S)
    if "zero" in (ca, cb):
        return zero(s, S)
    return round_fraction(to_fraction(a, S) * to_fraction(b, S), S, rm, zero_sign=s)


def div(a, b, S, rm):
    ca, cb = _cls(a, S), _cls(b, S)
    if "nan" in (ca, cb):
        return NAN
    s = sign_of(a, S) ^ sign_of(b, S)
    if ca == "inf" and cb == "inf":
        return NAN
    if ca == "zero" and cb == "zero":
        return NAN
    if ca == "inf":
        return inf(s, S)
    if cb == "inf":
        return zero(s, S)
    if cb == "zero":
        return inf(s, S)
    if ca == "zero":
        return zero(s, S)
    return round_fraction(to_fraction(a, S) / to_fraction(b, S), S, rm, zero_sign=s)


def sqrt(a, S, rm):
    c = _cls(a, S)
    if c == "nan":
        return NAN
    if c == "zero":
        return a
    if sign_of(a, S):
        return NAN
    if c == "inf":
        return a
    q = to_fraction(a, S)
    n, d = q.numerator, q.denominator
    # scale by 4^k so that the integer square root has at least sb+3 bits
    k = 0
    need = 2 * (S.sb + 4)
    while ((n << (2 * k)) // d).bit_length() < need:
        k += 8
    N = (n << (2 * k)) // d
    exact_div = (N * d) == (n << (2 * k))
    t = isqrt(N)
    if exact_div and t * t == N:
        r = Fraction(t, 1 << k)
    else:
        r = Fraction(2 * t + 1, 2 << k)  # strictly between t and t+1: no rounding boundary in there
    return round_fraction(r, S, rm)


def convert(a, S, T, rm):
    """fp -> fp of another sort"""
    c = _cls(a, S)
    if c == "nan":
        return NAN
    if c == "inf":
        return inf(sign_of(a, S), T)
    if c == "zero":
        return zero(sign_of(a, S), T)
    return round_fraction(to_fraction(a, S), T, rm)


def from_int(v: int, T, rm):
    """exact integer -> fp"""
    return round_fraction(Fraction(v), T, rm, zero_sign=0)


def round_to_integral(q: Fraction, rm) -> int:
    fl = q.numerator // q.denominator
    rem = q - fl
    if rem == 0:
        return fl
    if rm == "RNE":
        if rem > Fraction(1, 2) or (rem == Fraction(1, 2) and (fl & 1)):
            return fl + 1
        return fl
    if rm == "RNA":
        if rem > Fraction(1, 2):
            return fl + 1
        if rem == Fraction(1, 2):
            return fl + 1 if q > 0 else fl  # away from zero
        return fl
    if rm == "RTZ":
        return fl if q > 0 else fl + 1
    if rm == "RTP":
        return fl + 1
    if rm == "RTN":
        return fl
    raise ValueError(rm)


def to_sbv(a, S, size, rm):
    """None = unspecified (NaN, inf, out of range)"""
    c = _cls(a, S)
    if c in ("nan", "inf"):
        return None
    i = 0 if c == "zero" else round_to_integral(to_fraction(a, S), rm)
    if not (-(1 << (size - 1)) <= i <= (1 << (size - 1)) - 1):
        return None
    return i & ((1 << size) - 1)


def to_ubv(a, S, size, rm):
    c = _cls(a, S)
    if c in ("nan", "inf"):
        return None
    i = 0 if c == "zero" else round_to_integral(to_fraction(a, S), rm)
    if not (0 <= i <= (1 << size) - 1):
        return None
    return i


# comparisons (IEEE: NaN unordered, +0 == -0)


def _ord(a, b, S):
    if is_nan(a, S) or is_nan(b, S):
        return None
    va = Fraction(0) if is_zero(a, S) else (None if is_inf(a, S) else to_fraction(a, S))
    vb = Fraction(0) if is_zero(b, S) else (None if is_inf(b, S) else to_fraction(b, S))

    def key(bits, v):
        if v is not None:
            return (0, v)
        return (1, 0) if not sign_of(bits, S) else (-1, 0)

    ka, kb = key(a, va), key(b, vb)
    return (ka > kb) - (ka < kb)


def eq(a, b, S):
    o = _ord(a, b, S)
    return o == 0 if o is not None else False


def lt(a, b, S):
    o = _ord(a, b, S)
    return o == -1 if o is not None else False


def leq(a, b, S):
    o = _ord(a, b, S)
    return o in (-1, 0) if o is not None else False


def gt(a, b, S):
    return lt(b, a, S)


def geq(a, b, S):
    return leq(b, a, S)


# ---------------------------------------------------------------------------------------------
# helpers for harnesses
# ---------------------------------------------------------------------------------------------


def same(x, y, S):
    """result equality: NaN == NaN (any payload), otherwise bit-exact"""
    xn = x == NAN or (isinstance(x, int) and is_nan(x, S))
    yn = y == NAN or (isinstance(y, int) and is_nan(y, S))
    if xn or yn:
        return xn and yn
    return x == y


def bits_of_pyfloat(v: float, S) -> int:
    import struct

    if S is FLOAT:
        return struct.unpack("<I", struct.pack("<f", v))[0]
    return struct.unpack("<Q", struct.pack("<d", v))[0]


def pyfloat_of_bits(bits: int, S) -> float:
    import struct

    if S is FLOAT:
        return struct.unpack("<f", struct.pack("<I", bits))[0]
    return struct.unpack("<d", struct.pack("<Q", bits))[0]


def show(bits, S) -> str:
    if bits == NAN:
        return "NaN"
    if bits is None:
        return "unspecified"
    return f"{S.name}:0x{bits:0{S.width // 4}x}({pyfloat_of_bits(bits, S)!r})"
