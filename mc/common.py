"""Shared runner machinery: reports, known-findings matching, evidence, replay files, parallel map.

Every check builds a `Report`, records what it explored (`count`, `sample`) and every failing case
(`fail(sig, case, detail, replay)`), and ends with `finish()`, which
  * matches failures against /verif/known_findings.jsonl (never written at run time),
  * prints one `KNOWN-FINDING:` line per re-observed listed finding,
  * prints `VIOLATION property=<id> replay=<file>` for every failure no entry lists, and
  * rewrites /verif/evidence/<id>.json.
"""

from __future__ import annotations

import gzip
import json
import multiprocessing as mp
import os
import sys
import time
import traceback

ROOT = os.path.dirname(os.path.dirname(os.path.abspath(__file__)))
# VERIF_SCRATCH redirects evidence / replay output (development aid for runs against seeded changes, so
# that they do not overwrite the evidence of the unchanged tree); registered commands never set it
_OUT = os.environ.get("VERIF_SCRATCH") or ROOT
EVIDENCE_DIR = os.path.join(_OUT, "evidence")
REPLAY_DIR = os.path.join(_OUT, "replays")
KNOWN_FILE = os.path.join(ROOT, "known_findings.jsonl")

NCPU = int(os.environ.get("VERIF_JOBS", os.cpu_count() or 4))


def seed() -> int:
    try:
        return int(os.environ.get("VERIF_SEED", "0"))
    except ValueError:
        return 0


# ---------------------------------------------------------------------------------------------
# known findings
# ---------------------------------------------------------------------------------------------

_known_cache = None
_tier = "quick"


def load_known():
    """-> {(property, sig): {"desc": str, "cases": set|None}} ; fixed entries match nothing."""
    global _known_cache
    if _known_cache is not None:
        return _known_cache
    out = {}
    if os.path.exists(KNOWN_FILE):
        with open(KNOWN_FILE) as f:
            for line in f:
                line = line.strip()
                if not line or line.startswith("#"):
                    continue
                if line.startswith("fixed:"):
                    continue
                e = json.loads(line)
                if e.get("status") == "fixed":
                    continue
                cases = None
                if "cases" in e:
                    cases = set(e["cases"])
                elif "cases_file" in e or "cases_file_thorough" in e:
                    cases = set()  # an entry with case lists matches nothing but the listed cases (of the running tier)
                for fkey in ("cases_file", "cases_file_thorough"):
                    if fkey in e and (fkey == "cases_file" or _tier == "thorough"):
                        p = os.path.join(ROOT, e[fkey])
                        op = gzip.open if p.endswith(".gz") else open
                        with op(p, "rt") as cf:
                            cs = {l.rstrip("\n") for l in cf if l.strip()}
                        cases = cs if cases is None else cases | cs
                key = (e["property"], e["sig"])
                if key in out and out[key]["cases"] is not None and cases is not None:
                    out[key]["cases"] |= cases
                else:
                    out[key] = {"desc": e.get("desc", ""), "cases": cases}
    _known_cache = out
    return out


# ---------------------------------------------------------------------------------------------
# report
# ---------------------------------------------------------------------------------------------


class Report:
    def __init__(self, pid: str, tier: str, level: str, rule: str = ""):
        global _tier
        _tier = tier
        self.pid = pid
        self.tier = tier
        self.level = level
        self.rule = rule
        self.t0 = time.time()
        self.counts: dict[str, int] = {}
        self.samples: list = []
        self.failures: list[dict] = []
        self.assumptions: list[str] = []
        self.extra: dict = {}
        self.exhaustive = True
        self.oracle_errors: list[str] = []

    # -- recording ----------------------------------------------------------------------------
    def count(self, key: str, n: int = 1):
        self.counts[key] = self.counts.get(key, 0) + n

    def sample(self, s, limit: int = 12):
        if len(self.samples) < limit:
            self.samples.append(s)

    def fail(self, sig: str, case: str, detail=None, replay=None):
        self.failures.append({"sig": sig, "case": case, "detail": detail, "replay": replay})

    def merge(self, part: dict):
        """merge a worker's partial result (see `part()`)."""
        for k, v in part.get("counts", {}).items():
            self.count(k, v)
        for s in part.get("samples", []):
            self.sample(s)
        self.failures.extend(part.get("failures", []))
        for k, v in part.get("extra_sets", {}).items():
            self.extra.setdefault(k, set()).update(v)
        self.oracle_errors.extend(part.get("oracle_errors", []))
        if part.get("capped"):
            self.exhaustive = False
            self.extra.setdefault("caps", []).append(part["capped"])

    # -- finishing ----------------------------------------------------------------------------
    def finish(self) -> int:
        if self.oracle_errors:
            # our own reference is inconsistent: never a VIOLATION, never believed
            for e in self.oracle_errors[:10]:
                print(f"ORACLE-ERROR property={self.pid} {e}")
            self._write_evidence(violations=0, known={}, status="oracle-error")
            return 2

        dump = os.environ.get("VERIF_DUMP_FAILURES")
        if dump:  # development aid for tools/triage.py; never used by registered commands
            with gzip.open(dump, "wt") as fh:
                for f in self.failures:
                    fh.write(json.dumps({"sig": f["sig"], "case": f["case"], "detail": f["detail"]}, default=str) + "\n")
        known = load_known()
        seen_known: dict[str, int] = {}
        new: list[dict] = []
        for f in self.failures:
            k = known.get((self.pid, f["sig"]))
            if k is not None and (k["cases"] is None or f["case"] in k["cases"]):
                seen_known[f["sig"]] = seen_known.get(f["sig"], 0) + 1
            else:
                new.append(f)

        for sig in sorted(seen_known):
            d = known[(self.pid, sig)]["desc"]
            print(f"KNOWN-FINDING: property={self.pid} sig={sig} cases={seen_known[sig]} {d}")

        rc = 0
        if new:
            rc = 1
            os.makedirs(os.path.join(REPLAY_DIR, self.pid), exist_ok=True)
            # group by sig, one replay file per sig (holding up to 20 cases), stable names
            bysig: dict[str, list[dict]] = {}
            for f in new:
                bysig.setdefault(f["sig"], []).append(f)
            for i, sig in enumerate(sorted(bysig)):
                fs = bysig[sig]
                path = os.path.join(REPLAY_DIR, self.pid, f"{_slug(sig)}.json")
                with open(path, "w") as fh:
                    json.dump(
                        {"property": self.pid, "sig": sig, "n_cases": len(fs), "cases": fs[:20]},
                        fh,
                        indent=1,
                        default=str,
                    )
                print(f"VIOLATION property={self.pid} replay={path}")
                print(f"  sig={sig} cases={len(fs)} first={fs[0]['case']}")
                if fs[0].get("detail") is not None:
                    print(f"  detail={_short(fs[0]['detail'])}")
        self._write_evidence(violations=len(new), known=seen_known, status="ok" if rc == 0 else "violation")
        dt = time.time() - self.t0
        tm = os.times()
        cpu = tm.user + tm.system + tm.children_user + tm.children_system
        c = self.counts
        print(
            f"[{self.pid} {self.tier}] states={c.get('states', 0)} transitions={c.get('transitions', 0)} "
            f"known_failing_cases={sum(seen_known.values())} new_failing_cases={len(new)} wall={dt:.1f}s cpu={cpu:.0f}s"
        )
        return rc

    def _write_evidence(self, violations: int, known: dict, status: str):
        os.makedirs(EVIDENCE_DIR, exist_ok=True)
        c = dict(self.counts)
        states = int(c.get("states", 0))
        transitions = int(c.get("transitions", 0))
        cov = {
            "states": states,
            "transitions": transitions,
            "traces_validated_against_impl": int(c.get("traces", transitions)),
            "evaluations": int(c.get("evaluations", transitions)),
            "distinct_nontrivial": int(c.get("distinct_nontrivial", states)),
            "rule": self.rule,
            "samples": self.samples if self.samples else ["(none recorded)"],
            "exhaustive": bool(self.exhaustive),
            "counters": c,
            "known_findings_reobserved": known,
            "status": status,
        }
        for k, v in self.extra.items():
            cov[k] = sorted(v, key=str) if isinstance(v, set) else v
        ev = {
            "property_id": self.pid,
            "tier": self.tier,
            "seed": seed(),
            "level": self.level,
            "coverage": cov,
            "assumptions": self.assumptions,
            "wall_s": round(time.time() - self.t0, 3),
            "violations": violations,
        }
        with open(os.path.join(EVIDENCE_DIR, f"{self.pid}.json"), "w") as fh:
            json.dump(ev, fh, indent=1, default=str)


def _slug(s: str) -> str:
    out = "".join(ch if ch.isalnum() or ch in "-_." else "_" for ch in s)
    return out[:80] or "case"


def _short(x, n=400):
    s = x if isinstance(x, str) else json.dumps(x, default=str)
    return s if len(s) <= n else s[:n] + "..."


# ---------------------------------------------------------------------------------------------
# partial results produced inside worker processes
# ---------------------------------------------------------------------------------------------


class Part:
    """what a worker sends back; mirrors the recording API of Report."""

    def __init__(self):
        self.counts = {}
        self.samples = []
        self.failures = []
        self.extra_sets = {}
        self.oracle_errors = []
        self.capped = None

    def count(self, key, n=1):
        self.counts[key] = self.counts.get(key, 0) + n

    def sample(self, s, limit=4):
        if len(self.samples) < limit:
            self.samples.append(s)

    def fail(self, sig, case, detail=None, replay=None):
        self.failures.append({"sig": sig, "case": case, "detail": detail, "replay": replay})

    def note(self, key, value):
        self.extra_sets.setdefault(key, set()).add(value)

    def dump(self):
        return {
            "counts": self.counts,
            "samples": self.samples,
            "failures": self.failures,
            "extra_sets": self.extra_sets,
            "oracle_errors": self.oracle_errors,
            "capped": self.capped,
        }


# ---------------------------------------------------------------------------------------------
# parallel map (fork; work items are small picklable things, results are Part dumps)
# ---------------------------------------------------------------------------------------------


def _wrap(args):
    fn, item = args
    try:
        return fn(item)
    except BaseException:  # a crash of our own harness must be loud, not silent
        p = Part()
        p.oracle_errors.append("worker crashed: " + traceback.format_exc()[-1500:])
        return p.dump()


def pmap(fn, items, jobs: int | None = None, chunksize: int = 1, fresh: bool = False):
    """Run fn(item) for every item in forked workers; yields results in completion order.
    fn must be a module-level function.  Work order is permuted by VERIF_SEED (the explored set
    is the same for every seed).  fresh=True: every item runs in a newly forked worker (no state carried
    from one item to the next), for code under test whose behaviour depends on process history."""
    items = list(items)
    s = seed()
    if s:
        import random

        random.Random(s).shuffle(items)
    jobs = jobs or NCPU
    if jobs <= 1 or len(items) <= 1:
        for it in items:
            yield _wrap((fn, it))
        return
    ctx = mp.get_context("fork")
    with ctx.Pool(min(jobs, len(items)), maxtasksperchild=1 if fresh else None) as pool:
        yield from pool.imap_unordered(_wrap, [(fn, it) for it in items], chunksize=chunksize)


def main_guard():
    os.environ.setdefault("PYTHONHASHSEED", "0")
    sys.setrecursionlimit(10000)
