"""Shadow execution: every value is a pair (claripy AST built through the public API, truth table of
the *written* operations).  Pattern drivers are ordinary Python expressions over `SV` objects; every
single operation is checked (`den(ast) == table`) the moment it is built, so the first wrong step
is the one reported, and the table keeps following the written meaning end to end.
"""

from __future__ import annotations

import claripy
from claripy.errors import ClaripyZeroDivisionError

from . import refsem
from .refsem import Den, DenError, mask, show


class TableScope:
    """Scope given by explicit per-variable tables (all of the same length N)."""

    def __init__(self, vars_: dict[str, tuple[int, tuple]]):
        self.field = {n: (0, w) for n, (w, _) in vars_.items()}
        self._tab = {n: t for n, (_, t) in vars_.items()}
        ns = {len(t) for t in self._tab.values()}
        assert len(ns) <= 1
        self.N = ns.pop() if ns else 1

    def var_table(self, name):
        return self._tab[name]

    def const(self, v):
        return (v,) * self.N

    def env(self, i):
        return {n: self._tab[n][i] for n in self._tab}


def product_scope(vars_: list[tuple[str, int, list]]):
    """vars_: (name, width, domain values) (width 0 = Bool); environments = full product of the domains"""
    import itertools

    doms = [d for _, _, d in vars_]
    envs = list(itertools.product(*doms))
    tabs = {}
    for k, (n, w, _) in enumerate(vars_):
        tabs[n] = (w, tuple(e[k] for e in envs))
    return TableScope(tabs)


BYTE_ATOMS = [0x00, 0x01, 0x7F, 0x80, 0xFF, 0x5A]


def byte_atom_domain(width: int, atoms=None, cap: int = 1500):
    """all values of `width` bits whose bytes are atoms (full product if small enough, else a
    position-distinguishing family); width must be a multiple of 8"""
    import itertools

    atoms = atoms or BYTE_ATOMS
    nb = width // 8
    if len(atoms) ** nb <= cap:
        return [int.from_bytes(bytes(p), "big") for p in itertools.product(atoms, repeat=nb)]
    vals = set()
    # every byte position distinct, rotated, complemented; single-byte probes
    base = list(range(1, nb + 1))
    for rot in range(nb):
        b = base[rot:] + base[:rot]
        vals.add(int.from_bytes(bytes(b), "big"))
        vals.add(int.from_bytes(bytes((x * 0x11) & 0xFF for x in b), "big"))
        vals.add(int.from_bytes(bytes(0xFF - x for x in b), "big"))
    for pos in range(nb):
        for a in atoms:
            for fill in (0x00, 0xFF):
                b = [fill] * nb
                b[pos] = a
                vals.add(int.from_bytes(bytes(b), "big"))
    vals |= {0, mask(width), 1 << (width - 1), (1 << (width - 1)) - 1, 0x0123456789ABCDEF0123456789ABCDEF & mask(width)}
    return sorted(vals)


class Ctx:
    def __init__(self, scope, part, on_check=None, prefix=""):
        self.scope = scope
        self.den = Den(scope)
        self.part = part
        self.on_check = on_check  # callable(ctx, label, built_ast, expected_table, part)
        self.prefix = prefix
        self.broken = False  # a step already failed in the current pattern instance

    def bv(self, name, w):
        a = claripy.BVS(name, w, explicit_name=True)
        return SV(self, a, self.scope.var_table(name), w, name)

    def boolean(self, name):
        a = claripy.BoolS(name, explicit_name=True)
        return SV(self, a, self.scope.var_table(name), None, name)

    def const(self, v, w):
        return SV(self, claripy.BVV(v, w), self.scope.const(v & mask(w)), w, f"{v & mask(w)}#{w}")

    def true(self):
        return SV(self, claripy.true(), self.scope.const(True), None, "T")

    def false(self):
        return SV(self, claripy.false(), self.scope.const(False), None, "F")

    def check(self, label, built, expected):
        if self.on_check is not None:
            self.on_check(self, self.prefix + label, built, expected, self.part)


class Skip(Exception):
    """raised inside a pattern when claripy raised an accepted error (concrete division by zero)"""


class SV:
    __slots__ = ("ast", "ctx", "tab", "txt", "w")

    def __init__(self, ctx, ast, tab, w, txt):
        self.ctx = ctx
        self.ast = ast
        self.tab = tab
        self.w = w
        self.txt = txt

    # -- helpers -----------------------------------------------------------------------------
    def _lift(self, o):
        if isinstance(o, SV):
            return o.ast, o.tab, o.txt
        if isinstance(o, bool):
            return o, self.ctx.scope.const(o), repr(o)
        if isinstance(o, int):
            return o, self.ctx.scope.const(o & mask(self.w)), f"int{o}"
        raise TypeError(o)

    def _mk(self, sem, fn, operands, params=(), txt="", w=None, divisor=None):
        asts, tabs, widths = [], [], []
        for o in operands:
            a, t, _ = self._lift(o)
            asts.append(a)
            tabs.append(t)
            if isinstance(o, SV):
                widths.append(o.w)
            elif isinstance(o, bool):
                widths.append(None)
            else:
                widths.append(self.w)
        exp = refsem.apply_tables(sem, tabs, widths, params)
        try:
            r = fn(*asts)
        except ClaripyZeroDivisionError:
            if divisor is not None and not any(tabs[divisor]):
                raise Skip from None
            self.ctx.part.fail("zerodiv:" + sem, self.ctx.prefix + txt, "ClaripyZeroDivisionError with a divisor that is not constantly 0")
            raise Skip from None
        if r is NotImplemented:
            raise TypeError(f"NotImplemented from {txt}")
        self.ctx.check(txt, r, exp)
        return SV(self.ctx, r, exp, w, txt)

    def _bin(self, o, sem, fn, sym, swap=False):
        ops = [o, self] if swap else [self, o]
        t = f"({self._lift(ops[0])[2]}{sym}{self._lift(ops[1])[2]})"
        cmp_ = sem in refsem.BV_CMP
        dv = 1 if sem in refsem.DIV_OPS else None
        return self._mk(sem, fn, ops, txt=t, w=None if cmp_ else self.w, divisor=dv)

    # -- python operators --------------------------------------------------------------------
    def __add__(self, o):
        return self._bin(o, "__add__", lambda a, b: a + b, "+")

    def __radd__(self, o):
        return self._bin(o, "__add__", lambda a, b: a + b, "+", swap=True)

    def __sub__(self, o):
        return self._bin(o, "__sub__", lambda a, b: a - b, "-")

    def __rsub__(self, o):
        return self._bin(o, "__sub__", lambda a, b: a - b, "-", swap=True)

    def __mul__(self, o):
        return self._bin(o, "__mul__", lambda a, b: a * b, "*")

    def __rmul__(self, o):
        return self._bin(o, "__mul__", lambda a, b: a * b, "*", swap=True)

    def __floordiv__(self, o):
        return self._bin(o, "__floordiv__", lambda a, b: a // b, "//")

    def __rfloordiv__(self, o):
        return self._bin(o, "__floordiv__", lambda a, b: a // b, "//", swap=True)

    def __truediv__(self, o):
        return self._bin(o, "__floordiv__", lambda a, b: a / b, "/")

    def __mod__(self, o):
        return self._bin(o, "__mod__", lambda a, b: a % b, "%")

    def __rmod__(self, o):
        return self._bin(o, "__mod__", lambda a, b: a % b, "%", swap=True)

    def __and__(self, o):
        if self.w is None:
            return And(self, o)
        return self._bin(o, "__and__", lambda a, b: a & b, "&")

    def __rand__(self, o):
        return self._bin(o, "__and__", lambda a, b: a & b, "&", swap=True)

    def __or__(self, o):
        if self.w is None:
            return Or(self, o)
        return self._bin(o, "__or__", lambda a, b: a | b, "|")

    def __ror__(self, o):
        return self._bin(o, "__or__", lambda a, b: a | b, "|", swap=True)

    def __xor__(self, o):
        return self._bin(o, "__xor__", lambda a, b: a ^ b, "^")

    def __rxor__(self, o):
        return self._bin(o, "__xor__", lambda a, b: a ^ b, "^", swap=True)

    def __lshift__(self, o):
        return self._bin(o, "__lshift__", lambda a, b: a << b, "<<")

    def __rlshift__(self, o):
        return self._bin(o, "__lshift__", lambda a, b: a << b, "<<", swap=True)

    def __rshift__(self, o):
        return self._bin(o, "__rshift__", lambda a, b: a >> b, ">>")

    def __rrshift__(self, o):
        return self._bin(o, "__rshift__", lambda a, b: a >> b, ">>", swap=True)

    def __eq__(self, o):  # noqa: PLW1641
        return self._bin(o, "__eq__", lambda a, b: a == b, "==")

    def __ne__(self, o):
        return self._bin(o, "__ne__", lambda a, b: a != b, "!=")

    def __lt__(self, o):
        return self._bin(o, "ULT", lambda a, b: a < b, "<")

    def __le__(self, o):
        return self._bin(o, "ULE", lambda a, b: a <= b, "<=")

    def __gt__(self, o):
        return self._bin(o, "UGT", lambda a, b: a > b, ">")

    def __ge__(self, o):
        return self._bin(o, "UGE", lambda a, b: a >= b, ">=")

    __hash__ = None

    def __neg__(self):
        return self._mk("__neg__", lambda a: -a, [self], txt=f"(-{self.txt})", w=self.w)

    def __invert__(self):
        if self.w is None:
            return Not(self)
        return self._mk("__invert__", lambda a: ~a, [self], txt=f"(~{self.txt})", w=self.w)

    def __getitem__(self, rng):
        if isinstance(rng, slice):
            hi = rng.start if rng.start is not None else self.w - 1
            lo = rng.stop if rng.stop is not None else 0
            if hi < 0:
                hi += self.w
            if lo < 0:
                lo += self.w
            return self._mk(
                "Extract", lambda a: a[rng.start : rng.stop], [self], (hi, lo), txt=f"{self.txt}[{rng.start}:{rng.stop}]", w=hi - lo + 1
            )
        i = int(rng)
        return self._mk("Extract", lambda a: a[i], [self], (i, i), txt=f"{self.txt}[{i}]", w=1)

    @property
    def reversed(self):
        return self._mk("Reverse", lambda a: a.reversed, [self], txt=f"{self.txt}.reversed", w=self.w)


def _fn2(sem, cmp_=False):
    def f(a: SV, b):
        fn = getattr(claripy, sem)
        other = b if isinstance(b, SV) else None
        base = a if isinstance(a, SV) else other
        ops = [a, b]
        txt = f"{sem}({base._lift(a)[2]},{base._lift(b)[2]})"
        dv = 1 if sem in refsem.DIV_OPS else None
        return base._mk(sem, fn, ops, txt=txt, w=None if cmp_ else base.w, divisor=dv)

    return f


LShR = _fn2("LShR")
SDiv = _fn2("SDiv")
SMod = _fn2("SMod")
RotateLeft = _fn2("RotateLeft")
RotateRight = _fn2("RotateRight")
ULT = _fn2("ULT", True)
ULE = _fn2("ULE", True)
UGT = _fn2("UGT", True)
UGE = _fn2("UGE", True)
SLT = _fn2("SLT", True)
SLE = _fn2("SLE", True)
SGT = _fn2("SGT", True)
SGE = _fn2("SGE", True)


def Concat(*xs: SV):
    txt = "Concat(" + ",".join(x.txt for x in xs) + ")"
    return xs[0]._mk("Concat", claripy.Concat, list(xs), txt=txt, w=sum(x.w for x in xs))


def Extract(hi, lo, x: SV):
    return x._mk("Extract", lambda a: claripy.Extract(hi, lo, a), [x], (hi, lo), txt=f"Extract({hi},{lo},{x.txt})", w=hi - lo + 1)


def ZeroExt(n, x: SV):
    return x._mk("ZeroExt", lambda a: claripy.ZeroExt(n, a), [x], (n,), txt=f"ZeroExt({n},{x.txt})", w=x.w + n)


def SignExt(n, x: SV):
    return x._mk("SignExt", lambda a: claripy.SignExt(n, a), [x], (n,), txt=f"SignExt({n},{x.txt})", w=x.w + n)


def Reverse(x: SV):
    return x._mk("Reverse", claripy.Reverse, [x], txt=f"Reverse({x.txt})", w=x.w)


def If(c, t, f):
    base = t if isinstance(t, SV) else f
    cc = c if isinstance(c, SV) else None
    holder = base
    ops = [c, t, f]
    lift = holder._lift
    txt = f"If({(c.txt if cc else repr(c))},{lift(t)[2]},{lift(f)[2]})"
    # condition table/width handled through _mk: bool operand gets width None
    return holder._mk("If", claripy.If, ops, txt=txt, w=base.w)


def And(*xs):
    base = next(x for x in xs if isinstance(x, SV))
    txt = "And(" + ",".join(base._lift(x)[2] for x in xs) + ")"
    return base._mk("And", claripy.And, list(xs), txt=txt, w=None)


def Or(*xs):
    base = next(x for x in xs if isinstance(x, SV))
    txt = "Or(" + ",".join(base._lift(x)[2] for x in xs) + ")"
    return base._mk("Or", claripy.Or, list(xs), txt=txt, w=None)


def Not(x: SV):
    return x._mk("Not", claripy.Not, [x], txt=f"Not({x.txt})", w=None)


def default_on_check(ctx, label, built, expected, part):
    part.count("transitions")
    try:
        got = ctx.den(built)
    except DenError as e:
        part.oracle_errors.append(f"{label}: {e}")
        return
    if got != expected:
        i = next(k for k, (a, b) in enumerate(zip(expected, got)) if a != b)
        part.fail("shadow", label, {"built": show(built), "env": ctx.scope.env(i), "expected": expected[i], "got": got[i]})
