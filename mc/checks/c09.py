"""C09 – solver-backed simplification preserves meaning and handles all claripy operators.

(a) E1 traversal: every distinct symbolic state e is sent through claripy.simplify(e) (twice: it memoises)
    and backends.z3.simplify(e); the results must have the truth table of e; the round trip must not raise.
    While doing so, the Z3 declaration kinds of every term handed to BackendZ3._abstract are recorded
    (run-time wrapper) – these are the operators Z3's simplifier / tactic chain actually emits.
    FP: the same for a family of FP expressions over FPS variables (incl. fpIsNaN / fpIsInf, all rounding
    modes, conversions), compared by Z3 ground evaluation over the FP boundary alphabet.
(b) the reverse operator map: for every BV / Bool declaration kind with a claripy name in op_map, a Z3 term
    of exactly that kind is built through the z3 API over x, y (w <= 3, all parameters), abstracted with
    backends.z3._abstract, and the claripy result's truth table is compared with ground evaluation of the
    Z3 term under every assignment.  A mismatch is a violation when the kind is one the simplifier emitted
    in (a) or one claripy's own translation produces; for kinds neither produced nor emitted it is
    recorded as latent (the property quantifies over what the round trip can meet).
(c) Solver.simplify(): for every constraint list of <= 3 constraints (+ a query before) on five frontend
    classes, the model set read from the constraint tables and from the solver itself is unchanged.
"""

from __future__ import annotations

import itertools
import json
import threading

import claripy
import z3
from claripy.errors import BackendError, ClaripyError

from .. import exprspace
from .. import fpref as F
from .. import histspace as H
from .. import valspace as V
from ..common import Part, Report, pmap
from ..refsem import DenError, mask, show
from ..z3conf import z3_table

PID = "C09"

# ---------------------------------------------------------------------------------------------
# (a) E1 monitor
# ---------------------------------------------------------------------------------------------


def _install_kind_recorder(space):
    """wrap backends.z3._abstract (instance attribute) to record the decl kinds of every term it receives"""
    be = claripy.backends.z3
    if getattr(be, "_c09_wrapped", False):
        return be._c09_kinds
    kinds = set()
    orig = be._abstract

    def rec(e):
        todo, seen = [e], set()
        while todo:
            t = todo.pop()
            i = t.get_id()
            if i in seen:
                continue
            seen.add(i)
            if z3.is_app(t):
                kinds.add(t.decl().kind())
                todo.extend(t.children())
        return orig(e)

    be._abstract = rec
    be._c09_wrapped = True
    be._c09_kinds = kinds
    return kinds


def monitor(space, tr, part, opts):
    part.count("transitions")
    try:
        r = tr.build()
    except Exception:  # noqa: BLE001
        return None
    if r is NotImplemented or not isinstance(r, claripy.ast.Base):
        return None
    seen = space.__dict__.setdefault("_c09_seen", {})
    if id(r) in seen:
        return r
    seen[id(r)] = r
    if not r.symbolic or r.is_leaf():
        return r
    kinds = _install_kind_recorder(space)
    case = f"w={space.w}|{tr.key}"
    try:
        exp = space.den(r)
    except DenError as e:
        part.oracle_errors.append(f"{case}: {e}")
        return r
    for name, f in (("claripy.simplify", claripy.simplify), ("claripy.simplify#2", claripy.simplify), ("z3.simplify", claripy.backends.z3.simplify)):
        part.count("transitions")
        part.count("simplify_calls")
        try:
            q = f(r)
        except Exception as e:  # noqa: BLE001
            part.fail(f"{name.split('#')[0]}:raised:{type(e).__name__}:{r.op}", f"{case}|{name}", {"expr": show(r), "error": str(e)[:160]}, {"kind": "e1", "w": space.w, "key": tr.key})
            continue
        try:
            got = space.den(q)
        except DenError as e:
            part.fail(f"{name.split('#')[0]}:uninterpretable:{r.op}", f"{case}|{name}", {"expr": show(r), "simplified": show(q), "error": str(e)[:120]}, {"kind": "e1", "w": space.w, "key": tr.key})
            continue
        if got != exp:
            i = next(k for k, (a, b) in enumerate(zip(exp, got)) if a != b)
            part.fail(
                f"{name.split('#')[0]}:wrong:{r.op}",
                f"{case}|{name}",
                {"expr": show(r), "simplified": show(q), "env": space.scope.env(i), "expected": exp[i], "got": got[i]},
                {"kind": "e1", "w": space.w, "key": tr.key},
            )
        elif name == "claripy.simplify":
            part.sample({"w": space.w, "expr": show(r), "simplified": show(q)}, limit=2)
    for k in kinds:
        part.note("emitted_decl_kinds", k)
    return r


# ---------------------------------------------------------------------------------------------
# (a'') two-sided constant bounds: the shapes range-narrowing tactics look for
# ---------------------------------------------------------------------------------------------


def _bounds_job(w):
    """And / Or of two comparisons of one variable with constants (every operator pair, every pair of constants, both
    operand orders): top-level conjuncts that bound a variable from both sides"""
    part = Part()
    space = exprspace.Space(w)
    x = space.bvs[0]
    cmps = [("SLE", claripy.SLE), ("SLT", claripy.SLT), ("ULE", claripy.ULE), ("ULT", claripy.ULT), ("SGE", claripy.SGE), ("UGT", claripy.UGT)]
    consts = range(1 << w)
    for (n1, f1), (n2, f2) in itertools.product(cmps, cmps):
        for c1 in consts:
            for c2 in consts:
                a = f1(claripy.BVV(c1, w), x)
                b = f2(x, claripy.BVV(c2, w))
                for cn, conn in (("And", claripy.And), ("Or", claripy.Or)):
                    r = conn(a, b)
                    if not r.symbolic:
                        continue
                    case = f"w={w}|bounds|{cn}({n1}({c1},x),{n2}(x,{c2}))"
                    try:
                        exp = space.den(r)
                    except DenError:
                        continue
                    for name, f in (("claripy.simplify", claripy.simplify), ("z3.simplify", claripy.backends.z3.simplify)):
                        part.count("transitions")
                        part.count("bounds_simplify_calls")
                        try:
                            q = f(r)
                        except Exception as e:  # noqa: BLE001
                            part.fail(f"{name}:raised:{type(e).__name__}:bounds", f"{case}|{name}", {"expr": show(r), "error": str(e)[:160]})
                            continue
                        try:
                            got = space.den(q)
                        except DenError as e:
                            part.fail(f"{name}:uninterpretable:bounds", f"{case}|{name}", {"expr": show(r), "simplified": show(q), "error": str(e)[:120]})
                            continue
                        if got != exp:
                            i = next(k for k, (u, v) in enumerate(zip(exp, got)) if u != v)
                            part.fail(f"{name}:wrong:bounds", f"{case}|{name}", {"expr": show(r), "simplified": show(q), "env": space.scope.env(i), "expected": exp[i], "got": got[i]})
    return part.dump()


# ---------------------------------------------------------------------------------------------
# (a') FP expressions
# ---------------------------------------------------------------------------------------------


def _fp_job(sname):
    from .c02 import Ctx, znum, zvalue

    S = F.FLOAT if sname == "FLOAT" else F.DOUBLE
    part = Part()
    cx = Ctx(S)
    a, b = cx.a, cx.b
    cs = V.CL_SORT[S.name]
    ct = V.CL_SORT["DOUBLE" if sname == "FLOAT" else "FLOAT"]
    rms = [V.CL_RM[r] for r in F.RMS]
    one = claripy.FPV(1.0, cs)
    exprs = [
        ("fpIsNaN(a)", claripy.fpIsNaN(a)),
        ("fpIsInf(a)", claripy.fpIsInf(a)),
        ("Not(fpIsNaN(a+b))", claripy.Not(claripy.fpIsNaN(claripy.fpAdd(rms[0], a, b)))),
        ("And(fpIsInf(a),a>b)", claripy.And(claripy.fpIsInf(a), a > b)),
        ("a==b", a == b),
        ("a!=b", a != b),
        ("a<b", a < b),
        ("a<=1", a <= one),
        ("fpAbs(a)>=b", claripy.fpAbs(a) >= b),
        ("fpNeg(a)==b", claripy.fpNeg(a) == b),
        ("If(a<b,a,b)==a", claripy.If(a < b, a, b) == a),
        ("fpToIEEEBV(a)==fpToIEEEBV(b)", claripy.fpToIEEEBV(a) == claripy.fpToIEEEBV(b)),
        ("fpToIEEEBV(a)", claripy.fpToIEEEBV(a)),
        ("fpToFP(a,other)==fpToFP(b,other)", claripy.fpToFP(rms[0], a, ct) == claripy.fpToFP(rms[0], b, ct)),
    ]
    for rm, rn in zip(rms, F.RMS):
        exprs += [
            (f"fpAdd[{rn}]", claripy.fpAdd(rm, a, b)),
            (f"fpSub[{rn}](a,1)", claripy.fpSub(rm, a, one)),
            (f"fpMul[{rn}]", claripy.fpMul(rm, a, b)),
            (f"fpDiv[{rn}]", claripy.fpDiv(rm, a, b)),
            (f"fpSqrt[{rn}]", claripy.fpSqrt(rm, a)),
            (f"fpAdd[{rn}]==b", claripy.fpAdd(rm, a, one) == b),
            (f"fpToSBV[{rn}]", claripy.fpToSBV(rm, a, 32)),
            (f"fpToUBV[{rn}]", claripy.fpToUBV(rm, a, 8)),
            (f"fpToFP[{rn}]", claripy.fpToFP(rm, a, ct)),
        ]
    A = V.fp_alphabet(S, "small")
    T = F.DOUBLE if S is F.FLOAT else F.FLOAT
    for label, e in exprs:
        for name, f in (("claripy.simplify", claripy.simplify), ("z3.simplify", claripy.backends.z3.simplify)):
            part.count("transitions")
            part.count("fp_simplify_calls")
            case = f"{sname}|{label}|{name}"
            try:
                q = f(e)
            except Exception as ex:  # noqa: BLE001
                part.fail(f"fp:{name}:raised:{type(ex).__name__}", case, {"expr": label, "error": str(ex)[:200]}, {"kind": "fp", "sort": sname})
                continue
            try:
                t0 = claripy.backends.z3.convert(e)
                t1 = claripy.backends.z3.convert(q)
            except ClaripyError as ex:
                part.fail(f"fp:{name}:result-not-translatable", case, {"expr": label, "error": str(ex)[:200]})
                continue
            bad = None
            RS = None
            for va, vb in itertools.product(A, A):
                subs = [(cx.za, znum(va, S, cx.ctx)), (cx.zb, znum(vb, S, cx.ctx))]
                try:
                    g0 = zvalue(z3.substitute(t0, *subs), S)
                    g1 = zvalue(z3.substitute(t1, *subs), S)
                except ValueError:
                    continue  # unspecified conversions do not reduce to a value
                part.count("evaluations_fp")
                same = (g0 == g1) or (g0 == F.NAN and g1 == F.NAN)
                if not same and isinstance(g0, int) and isinstance(g1, int):
                    # both NaN patterns?
                    RS = S if e.length == S.width else (T if e.length == T.width else None)
                    if RS is not None and F.is_nan(g0, RS) and F.is_nan(g1, RS):
                        same = True
                if not same:
                    bad = (va, vb, g0, g1)
                    break
            if bad:
                part.fail(f"fp:{name}:wrong", case, {"expr": label, "simplified": str(q)[:200], "a": F.show(bad[0], S), "b": F.show(bad[1], S), "original": str(bad[2]), "after": str(bad[3])}, {"kind": "fp", "sort": sname})
            else:
                part.sample({"fp": case, "simplified": str(q)[:120]}, limit=1)
    return part.dump()


# ---------------------------------------------------------------------------------------------
# (b) reverse operator map
# ---------------------------------------------------------------------------------------------


def z3_terms(w, ctx):
    """(label, z3 term) for every BV / Bool declaration kind reachable through the z3 API"""
    x = z3.BitVec(f"x{w}", w, ctx)
    y = z3.BitVec(f"y{w}", w, ctx)
    c = z3.Bool("c", ctx)
    d = z3.Bool("d", ctx)
    bvc = [z3.BitVecVal(v, w, ctx) for v in sorted({0, 1, mask(w), 1 << (w - 1)})]
    out = []
    bin_ = {
        "bvadd": lambda a, b: a + b,
        "bvsub": lambda a, b: a - b,
        "bvmul": lambda a, b: a * b,
        "bvudiv": z3.UDiv,
        "bvurem": z3.URem,
        "bvsdiv": lambda a, b: a / b,
        "bvsrem": z3.SRem,
        "bvsmod": lambda a, b: a % b,
        "bvand": lambda a, b: a & b,
        "bvor": lambda a, b: a | b,
        "bvxor": lambda a, b: a ^ b,
        "bvshl": lambda a, b: a << b,
        "bvashr": lambda a, b: a >> b,
        "bvlshr": z3.LShR,
        "ext_rotate_left": z3.RotateLeft,
        "ext_rotate_right": z3.RotateRight,
        "concat": z3.Concat,
    }
    cmp_ = {
        "eq": lambda a, b: a == b,
        "distinct": lambda a, b: z3.Distinct(a, b),
        "ult": z3.ULT,
        "ule": z3.ULE,
        "ugt": z3.UGT,
        "uge": z3.UGE,
        "slt": lambda a, b: a < b,
        "sle": lambda a, b: a <= b,
        "sgt": lambda a, b: a > b,
        "sge": lambda a, b: a >= b,
    }
    operands = [x, y, *bvc]
    for nm, f in {**bin_, **cmp_}.items():
        for a, b in itertools.product(operands, operands):
            if z3.is_bv_value(a) and z3.is_bv_value(b):
                continue
            out.append((f"{nm}({a},{b})", f(a, b)))
    out += [("bvneg(x)", -x), ("bvnot(x)", ~x), ("distinct3", z3.Distinct(x, y, bvc[1]))]
    for hi in range(w):
        for lo in range(hi + 1):
            out.append((f"extract[{hi}:{lo}](x)", z3.Extract(hi, lo, x)))
    for k in (0, 1, 2):
        out += [(f"zero_ext[{k}](x)", z3.ZeroExt(k, x)), (f"sign_ext[{k}](x)", z3.SignExt(k, x))]
    for k in (1, 2, 3):
        out.append((f"repeat[{k}](x)", z3.RepeatBitVec(k, x)))
    out += [
        ("ite(c,x,y)", z3.If(c, x, y)),
        ("ite(c,c,d)", z3.If(c, c, d)),
        ("not(c)", z3.Not(c)),
        ("and(c,d)", z3.And(c, d)),
        ("and3", z3.And(c, d, x == y)),
        ("or(c,d)", z3.Or(c, d)),
        ("or3", z3.Or(c, d, z3.ULT(x, y))),
        ("xor(c,d)", z3.Xor(c, d)),
        ("iff(c,d)", c == d),
        ("distinct(c,d)", z3.Distinct(c, d)),
        ("implies(c,d)", z3.Implies(c, d)),
        ("true", z3.BoolVal(True, ctx)),
        ("false", z3.BoolVal(False, ctx)),
        ("concat3", z3.Concat(x, y, bvc[1])),
        ("add3", x + y + bvc[1]),
        ("rotl_const", z3.RotateLeft(x, bvc[1])),
    ]
    return out


def ground_table(term, scope, zv):
    out = []
    for i in range(scope.N):
        env = scope.env(i)
        subs = []
        for n, v in zv.items():
            subs.append((v, z3.BoolVal(bool(env[n]), ctx=v.ctx) if z3.is_bool(v) else z3.BitVecVal(env[n], v.size(), ctx=v.ctx)))
        g = z3.simplify(z3.substitute(term, *subs))
        if z3.is_true(g):
            out.append(True)
        elif z3.is_false(g):
            out.append(False)
        elif z3.is_bv_value(g):
            out.append(g.as_long())
        else:
            raise ValueError(f"not ground: {g}")
    return tuple(out)


def _reverse_job(w):
    part = Part()
    space = exprspace.Space(w, nbool=2)
    be = claripy.backends.z3
    zv = {v.args[0]: be.convert(v) for v in space.leaves()}
    ctx = next(iter(zv.values())).ctx
    # kinds claripy's own translation produces (from the transitions of depth 1)
    produced = set()
    for s in space.leaves():
        for tr in space.transitions(s, full=False):
            try:
                r = tr.build()
                if isinstance(r, claripy.ast.Base) and r.symbolic:
                    t = be.convert(r)
                    todo = [t]
                    while todo:
                        u = todo.pop()
                        if z3.is_app(u):
                            produced.add(u.decl().kind())
                            todo.extend(u.children())
            except Exception:  # noqa: BLE001
                pass
    for k in produced:
        part.note("produced_decl_kinds", k)
    for label, term in z3_terms(w, ctx):
        kind = term.decl().kind()
        part.count("transitions")
        part.count("reverse_map_terms")
        case = f"w={w}|{label}"
        try:
            exp = ground_table(term, space.scope, zv)
        except Exception as e:  # noqa: BLE001
            part.oracle_errors.append(f"{case}: {e}")
            continue
        try:
            a = be._abstract(term)
            got = space.den(a)
        except (ClaripyError, DenError, Exception) as e:  # noqa: BLE001
            part.fail(f"abstract:raised:{label.split('(')[0].split('[')[0]}", case, {"decl_kind": kind, "error": f"{type(e).__name__}: {e}"[:160]}, {"kind": "reverse", "w": w, "decl_kind": kind})
            continue
        if got != exp:
            i = next(k for k, (p, q) in enumerate(zip(exp, got)) if p != q)
            part.fail(
                f"abstract:wrong:{label.split('(')[0].split('[')[0]}",
                case,
                {"decl_kind": kind, "abstracted": show(a), "env": space.scope.env(i), "z3": exp[i], "claripy": got[i]},
                {"kind": "reverse", "w": w, "decl_kind": kind},
            )
        else:
            part.sample({"z3_term": label, "abstracted": show(a)}, limit=1)
    return part.dump()


# ---------------------------------------------------------------------------------------------
# (c) Solver.simplify keeps the model set
# ---------------------------------------------------------------------------------------------

SK = ["x==3", "x!=0", "x<u5", "x>s1", "x+y==5", "y==x", "x&1==0", "x==1|x==6", "y>u6", "c", "!c", "F", "x<u2", "x+1==5", "x<=s-3", "1<=sx", "x<=u5"]


def _solver_job(item):
    cls, chunk = item
    part = Part()
    uni = H.universe("bv3")
    x, y = uni.E["x"], uni.E["y"]
    cbit = claripy.If(uni.K["c"], claripy.BVV(1, 1), claripy.BVV(0, 1))
    for labels, pre in chunk:
        out = {}

        def body(labels=labels, pre=pre, out=out):
            try:
                s = H.make_solver(cls, {})
                for l in labels:
                    s.add(uni.K[l])
                if pre == "sat":
                    s.satisfiable()
                elif pre == "eval":
                    try:
                        s.eval(x, 9)
                    except claripy.errors.UnsatError:
                        pass
                elif pre == "min":
                    try:
                        s.min(x)
                    except claripy.errors.UnsatError:
                        pass
                elif pre == "qadd":
                    # the first constraint is solved (a native solver exists), the others are only queued when simplify() runs
                    s = H.make_solver(cls, {})
                    s.add(uni.K[labels[0]])
                    s.satisfiable()
                    for l in labels[1:]:
                        s.add(uni.K[l])
                elif pre == "round2":
                    # a first simplify() happened when only the first constraint was there
                    s = H.make_solver(cls, {})
                    s.add(uni.K[labels[0]])
                    s.simplify()
                    for l in labels[1:]:
                        s.add(uni.K[l])
                twin = None
                if "Replacement" in cls:
                    # SolverReplacement is not exact (C13 lists that): judge simplify() against a never-simplified twin
                    twin = H.make_solver(cls, {})
                    for l in labels:
                        twin.add(uni.K[l])
                tables_before = None
                if "Composite" in cls:
                    # a concretely false constraint never enters SolverComposite.constraints (it only sets a flag; C16 / C18
                    # deal with that), so for the composite the constraint list is compared before / after simplify()
                    try:
                        tb = [uni.den(h) for h in s.constraints]
                        tables_before = tuple(i for i in range(uni.N) if all(t[i] for t in tb))
                    except DenError:
                        pass
                s.simplify()
                s.simplify()
                want = uni.models(list(labels))
                res = {}

                def read(sol):
                    try:
                        rows = sol.batch_eval([x, y, cbit], 200)
                    except claripy.errors.UnsatError:
                        return ()
                    got = set()
                    for vx, vy, vc in rows:
                        got.add((vx & 7) | ((vy & 7) << 3) | ((vc & 1) << 6))
                    return tuple(sorted(got))

                if twin is not None:
                    want = read(twin)
                elif hasattr(s, "constraints"):
                    try:
                        tabs = [uni.den(h) for h in s.constraints]
                        after = tuple(i for i in range(uni.N) if all(t[i] for t in tabs))
                        if "Composite" in cls:
                            if tables_before is not None and after != tables_before:
                                res["tables"] = after
                                out["want_tables"] = tables_before
                        else:
                            res["tables"] = after
                    except DenError:
                        pass
                res["solver"] = read(s)
                out["want"] = want
                out["res"] = res
            except BaseException as e:  # noqa: BLE001
                out["error"] = f"{type(e).__name__}: {e}"

        t = threading.Thread(target=body)
        t.start()
        t.join()
        part.count("transitions")
        part.count("solver_histories")
        case = f"{cls}|" + " ; ".join(labels) + f"|pre={pre}"
        if out.get("error"):
            part.fail(f"{cls}:simplify:raised", case, {"error": out["error"][:200]}, {"kind": "solver", "cls": cls, "labels": labels, "pre": pre})
            continue
        for how, got in out["res"].items():
            want_ = out.get("want_tables") if (how == "tables" and "want_tables" in out) else out["want"]
            if tuple(got) != tuple(want_):
                part.fail(f"{cls}:simplify-changed-models:{how}", case, {"models_before": len(out["want"]), "after": len(got)}, {"kind": "solver", "cls": cls, "labels": labels, "pre": pre})
        part.sample({"solver": case, "models": len(out["want"])}, limit=1)
    return part.dump()


def solver_cases(tier):
    out = []
    maxn = 2 if tier == "quick" else 3
    sk = SK if tier != "quick" else [k for k in SK if k not in ("x>s1", "y>u6", "!c", "x<u2")]
    for n in range(1, maxn + 1):
        for labels in itertools.permutations(sk, n):
            if n == 3 and not (labels[0] < labels[1]):
                continue
            pres = ("none", "sat", "eval", "min", "round2", "qadd") if (n < 3 and tier != "quick") else ("none", "eval", "round2", "qadd")
            for pre in pres:
                out.append((labels, pre))
    return out


def run(tier: str) -> int:
    rep = Report(
        PID,
        tier,
        "model_checking",
        rule="(a) every distinct symbolic E1 state through claripy.simplify (twice) and backends.z3.simplify: truth table "
        "unchanged, no exception; FP expression family through the same, compared by Z3 ground evaluation over the FP "
        "alphabet; And / Or of two constant bounds on one variable (all operator and constant pairs) through the same; (b) every BV/Bool Z3 declaration kind buildable through the z3 API x operand shapes abstracted by "
        "backends.z3._abstract and compared with ground evaluation of the Z3 term under every assignment; (c) every "
        "constraint list of <= 2 (3) constraints x pre-query (incl. query-then-add: later constraints still queued) on five frontend classes: model set unchanged by simplify()",
    )
    if tier == "quick":
        cfgs = [dict(w=1, depth=2, full=False), dict(w=2, depth=1), dict(w=3, depth=1)]
        widths = [1, 2, 3]
    else:
        cfgs = [dict(w=1, depth=2), dict(w=2, depth=2), dict(w=3, depth=2, full=False), dict(w=4, depth=1)]
        widths = [1, 2, 3, 4]
    exprspace.run_e1(rep, "mc.checks.c09:monitor", cfgs)
    emitted = set(rep.extra.get("emitted_decl_kinds", set()))
    for res in pmap(_fp_job, ["FLOAT", "DOUBLE"]):
        rep.merge(res)
    for res in pmap(_bounds_job, [2, 3] if tier == "quick" else [2, 3, 4]):
        rep.merge(res)
    parts = []
    for res in pmap(_reverse_job, widths):
        parts.append(res)
    produced = set()
    for res in parts:
        produced |= set(res.get("extra_sets", {}).get("produced_decl_kinds", set()))
    reachable = emitted | produced
    for res in parts:
        keep = []
        for f in res["failures"]:
            k = (f.get("replay") or {}).get("decl_kind")
            # Distinct with more than two arguments is never produced (claripy's != is binary) nor emitted
            if k in reachable and "distinct3" not in f["case"]:
                keep.append(f)
            else:
                rep.count("latent_reverse_map_mismatches_on_kinds_never_emitted")
                rep.extra.setdefault("latent_reverse_map_mismatches", [])
                if len(rep.extra["latent_reverse_map_mismatches"]) < 12:
                    rep.extra["latent_reverse_map_mismatches"].append({"case": f["case"], "detail": f["detail"]})
        res["failures"] = keep
        rep.merge(res)
    cases = solver_cases(tier)
    for cls in ("Solver", "SolverCacheless", "SolverComposite", "SolverHybrid", "SolverReplacement"):
        chunks = [cases[i::32] for i in range(32)]
        for res in pmap(_solver_job, [(cls, ch) for ch in chunks if ch]):
            rep.merge(res)
    rep.extra["decl_kinds_emitted_by_simplify"] = sorted(emitted)
    rep.extra["decl_kinds_produced_by_translation"] = sorted(produced)
    rep.assumptions = [
        "reverse-map mismatches on declaration kinds that neither claripy's translation produces nor Z3's simplifier emitted in this run are recorded as latent, not as violations",
        "FP results are compared by Z3 ground evaluation (the FP reference of C02 decides what the right value is)",
        "SolverReplacement's model set is read through the solver itself; its exactness is C13's business (known findings there)",
    ]
    return rep.finish()


def replay(path: str) -> int:
    data = json.load(open(path))
    bad = 0
    for c in data["cases"]:
        rp = c.get("replay") or {}
        hit = False
        if rp.get("kind") == "e1":
            sp = exprspace.Space(rp["w"])
            tr = exprspace.find_transition(sp, rp["key"])
            if tr is None:
                print("replay: transition not found", rp["key"])
                continue
            p = Part()
            monitor(sp, tr, p, {})
            hit = any(f["case"] == c["case"] for f in p.failures)
        elif rp.get("kind") == "reverse":
            res = _reverse_job(rp["w"])
            hit = any(f["case"] == c["case"] for f in res["failures"])
        elif rp.get("kind") == "fp":
            res = _fp_job(rp["sort"])
            hit = any(f["case"] == c["case"] for f in res["failures"])
        elif rp.get("kind") == "solver":
            res = _solver_job((rp["cls"], [(tuple(rp["labels"]), rp["pre"])]))
            hit = bool(res["failures"])
        if hit:
            bad += 1
            print(f"VIOLATION property={PID} replay={path}")
            print("  ", c["case"])
        else:
            print("replay:", c["case"], "holds now")
    return 1 if bad else 0
