"""C25 – constraint_to_si never cuts off a satisfying assignment.

Every constraint cmp(shape, rhs) with cmp in the ten comparisons, shape in {v, v+k, v-k, k-v, v*2, -v, ~v,
v[h:l], Concat(0..,v), Concat(v,k), ZeroExt, SignExt, v&k, v|k, v<<k, LShR(v,k), v>>k, If(y==0,v,k),
x+y, x-y, x&y} over one or two variables of width w (all constants k, all extract bounds), rhs a constant
(all) or the other variable, the variables plain or carrying a StridedIntervalAnnotation; then negations,
conjunctions and disjunctions of pairs from a sub-family.  For each constraint c:
   sat, pairs = claripy.constraint_to_si(c)
and for EVERY assignment that satisfies c (and the variables' own intervals): sat is True and, for each
(expr, bound) pair, den(expr)[assignment] is a member of gamma(backends.vsa.convert(bound)).
"""

from __future__ import annotations

import itertools
import json

import claripy
from claripy.annotation import StridedIntervalAnnotation
from claripy.backends.backend_vsa.strided_interval import StridedInterval
from claripy.errors import ClaripyError

from .. import sispace as S
from ..common import Part, Report, pmap
from ..refsem import Den, DenError, Scope, mask, show

PID = "C25"

CMPS = {
    "==": lambda a, b: a == b,
    "!=": lambda a, b: a != b,
    "ULT": claripy.ULT,
    "ULE": claripy.ULE,
    "UGT": claripy.UGT,
    "UGE": claripy.UGE,
    "SLT": claripy.SLT,
    "SLE": claripy.SLE,
    "SGT": claripy.SGT,
    "SGE": claripy.SGE,
}


def shapes(x, y, w, level):
    """(label, AST) – shapes built from x (and y)"""
    m = mask(w)
    ks = list(range(1 << w)) if w <= 3 else sorted({0, 1, 2, 3, w - 1, (1 << (w - 1)) - 1, 1 << (w - 1), m - 1, m, 5 & m, 0xA & m})
    out = [("x", x)]
    for k in ks:
        K = claripy.BVV(k, w)
        out += [(f"x+{k}", x + K), (f"x-{k}", x - K), (f"{k}-x", K - x), (f"x&{k}", x & K), (f"x|{k}", x | K), (f"x^{k}", x ^ K)]
        if k < w + 1:
            out += [(f"x<<{k}", x << K), (f"LShR(x,{k})", claripy.LShR(x, K)), (f"x>>{k}", x >> K)]
        out += [(f"Concat(x,{k})", claripy.Concat(x, K)), (f"If(y==0,x,{k})", claripy.If(y == 0, x, K)), (f"If(y==0,{k},x)", claripy.If(y == 0, K, x))]
    for hi in range(w):
        for lo in range(hi + 1):
            if hi - lo + 1 < w:
                out.append((f"x[{hi}:{lo}]", x[hi:lo]))
    for n in (1, 2, w + 1, w + 2):  # incl. a zero prefix wider than the payload
        if n > 2 and level != "full" and w > 2:
            continue
        out += [(f"ZeroExt({n},x)", claripy.ZeroExt(n, x)), (f"SignExt({n},x)", claripy.SignExt(n, x)), (f"Concat(0#{n},x)", claripy.Concat(claripy.BVV(0, n), x))]
    out += [("-x", -x), ("~x", ~x), ("x*2", x * 2), ("x+x", x + x), ("x+y", x + y), ("x-y", x - y), ("x&y", x & y), ("x+y+1", x + y + 1), ("x[0:0]..y", claripy.Concat(x[0:0], y))]
    if level == "full":
        out += [("(x+1)[hi:1]", (x + 1)[w - 1 : 1]), ("ZeroExt(1,x)+1", claripy.ZeroExt(1, x) + 1), ("(x&1)<<1", (x & 1) << 1), ("x-1-y", x - 1 - y), ("If(x==1,y,x)", claripy.If(x == 1, y, x))]
    if w % 8 == 0:
        out += [("Reverse(x)", claripy.Reverse(x))]
    # de-duplicate by object
    seen, res = set(), []
    for l, e in out:
        if id(e) not in seen:
            seen.add(id(e))
            res.append((l, e))
    return res


def rhs_for(e, y, w):
    n = e.length
    ks = list(range(1 << n)) if n <= 3 else sorted({0, 1, 2, 3, n - 1, (1 << (n - 1)) - 1, 1 << (n - 1), (1 << (n - 1)) + 1, mask(n) - 1, mask(n), 5 & mask(n)})
    out = [(str(k), claripy.BVV(k, n)) for k in ks]
    if n == w:
        out.append(("y", y))
    return out


def check_constraint(part, den, scope, label, c, var_gammas, spec):
    part.count("transitions")
    part.count("constraints")
    try:
        ct = den(c)
    except DenError as e:
        part.oracle_errors.append(f"{label}: {e}")
        return
    sat_envs = [i for i in range(scope.N) if ct[i] and all(scope.var_table(n)[i] in g for n, g in var_gammas.items())]
    try:
        sat, pairs = claripy.constraint_to_si(c)
    except ClaripyError as e:
        part.count("declined")
        part.note("declined_errors", type(e).__name__)
        return
    except RecursionError:
        part.fail("raised:RecursionError:" + c.op, label, {"constraint": show(c)}, spec)
        return
    except Exception as e:  # noqa: BLE001
        part.fail(f"raised:{type(e).__name__}:{c.op}", label, {"constraint": show(c), "error": str(e)[:160]}, spec)
        return
    if not sat_envs:
        part.count("unsatisfiable_constraints")
        return
    if not sat:
        part.fail("unsat-but-satisfiable:" + c.op, label, {"constraint": show(c), "witness": scope.env(sat_envs[0])}, spec)
        return
    part.count("bounds_returned", len(pairs))
    for expr, bound in pairs:
        try:
            et = den(expr)
        except DenError:
            part.count("bound_on_uninterpreted_expression")
            continue
        try:
            b = claripy.backends.vsa.convert(bound)
        except Exception as e:  # noqa: BLE001
            part.fail(f"bound-conversion-raised:{type(e).__name__}", label, {"constraint": show(c), "bound": str(bound)[:80], "error": str(e)[:120]}, spec)
            continue
        if not isinstance(b, StridedInterval):
            part.count("bound_not_an_interval")
            continue
        g = S.gamma(b)
        for i in sat_envs:
            if et[i] not in g:
                part.fail(
                    f"cuts-off:{c.op}:{_shape_kind(label)}",
                    label,
                    {"constraint": show(c), "bound_on": show(expr), "bound": S.key(b), "satisfying_assignment": scope.env(i), "value": et[i]},
                    spec,
                )
                break
        else:
            part.sample({"constraint": show(c), "bound_on": show(expr), "bound": S.key(b)}, limit=1)


def _shape_kind(label):
    """alphanumeric family name of the shape (it becomes part of a file name)"""
    s = label.split("|")[2] if label.count("|") >= 2 else label
    for k, name in (
        ("Concat", "Concat"),
        ("ZeroExt", "ZeroExt"),
        ("SignExt", "SignExt"),
        ("If", "If"),
        ("LShR", "LShR"),
        ("Reverse", "Reverse"),
        ("<<", "shl"),
        (">>", "ashr"),
        ("[", "extract"),
        ("&", "and"),
        ("|", "or"),
        ("^", "xor"),
        ("*", "mul"),
        ("+", "add"),
        ("-", "sub"),
        ("~", "not"),
    ):
        if k in s:
            return name
    return "var"


def _job(item):
    w, annot, level, part_i, nparts, compound = item
    part = Part()
    scope = Scope([(f"bx{w}", w), (f"by{w}", w)], [])
    den = Den(scope)
    x = claripy.BVS(f"bx{w}", w, explicit_name=True)
    y = claripy.BVS(f"by{w}", w, explicit_name=True)
    gam = {}
    if annot is not None:
        x = x.annotate(StridedIntervalAnnotation(*annot[0]))
        y = y.annotate(StridedIntervalAnnotation(*annot[1]))
        gam = {f"bx{w}": S.gamma(S.mk(w, *annot[0])), f"by{w}": S.gamma(S.mk(w, *annot[1]))}
    tag = "plain" if annot is None else f"x={S.key(S.mk(w, *annot[0]))},y={S.key(S.mk(w, *annot[1]))}"
    sh = shapes(x, y, w, level)
    basic = []
    k = 0
    for sl, e in sh:
        for rl, r in rhs_for(e, y, w):
            for cl, cf in CMPS.items():
                k += 1
                if k % nparts != part_i:
                    continue
                try:
                    c = cf(e, r)
                except ClaripyError:
                    continue
                label = f"w={w}|{tag}|{cl}({sl},{rl})"
                spec = {"kind": "basic", "item": [w, annot, level, part_i, nparts, compound]}
                check_constraint(part, den, scope, label, c, gam, spec)
                if compound and e.length == w and cl in ("ULT", "SGE", "==", "UGT") and rl in ("1", "3", "y") and ("+" in sl or "[" in sl or sl == "x" or "&" in sl):
                    basic.append((f"{cl}({sl},{rl})", c))
    if compound:
        basic = basic[:40]
        for (la, a), (lb, b) in itertools.combinations(basic, 2):
            for nm, c in ((f"And({la},{lb})", claripy.And(a, b)), (f"Or({la},{lb})", claripy.Or(a, b)), (f"And({la},Not({lb}))", claripy.And(a, claripy.Not(b)))):
                check_constraint(part, den, scope, f"w={w}|{tag}|{nm}", c, gam, {"kind": "compound", "item": [w, annot, level, part_i, nparts, compound]})
        for la, a in basic:
            check_constraint(part, den, scope, f"w={w}|{tag}|Not({la})", claripy.Not(a), gam, {"kind": "compound", "item": [w, annot, level, part_i, nparts, compound]})
    return part.dump()


def plan(tier):
    items = []
    if tier == "quick":
        for w in (2, 3):
            for p in range(8):
                items.append((w, None, "small", p, 8, p == 0))
        items += [(3, ((1, 1, 5), (2, 0, 6)), "small", p, 4, False) for p in range(4)]
        items += [(3, ((1, 6, 2), (0, 3, 3)), "small", p, 4, False) for p in range(4)]
    else:
        for w in (2, 3, 4):
            for p in range(16):
                items.append((w, None, "full", p, 16, p < 2))
        for an in (((1, 1, 5), (2, 0, 6)), ((1, 6, 2), (0, 3, 3)), ((2, 1, 7), (1, 0, 7)), ((3, 0, 6), (1, 5, 1))):
            items += [(3, an, "full", p, 8, p == 0) for p in range(8)]
        items += [(4, ((1, 2, 12), (4, 1, 13)), "full", p, 8, False) for p in range(8)]
        for p in range(16):
            items.append((8, None, "small", p, 16, False))
    return items


def run(tier: str) -> int:
    rep = Report(
        PID,
        tier,
        "model_checking",
        rule="every constraint cmp(shape, rhs): 10 comparisons x ~60-150 shapes over one or two variables (all constants, all "
        "extract bounds) x every constant / variable rhs at widths 2-3 (thorough 2-4 and 8), variables plain or "
        "interval-annotated; negations, conjunctions and disjunctions of pairs from a sub-family; for each, every "
        "satisfying assignment enumerated: sat flag True and each returned bound contains the bounded expression's value",
    )
    # constraint_to_si is history-dependent (fresh variable names feed AST hashes, which order its internal sets and
    # can collide - C06): every job runs in a freshly forked process so that its verdicts are reproducible
    for res in pmap(_job, plan(tier), fresh=True):
        rep.merge(res)
    rep.counts["states"] = rep.counts.get("constraints", 0)
    rep.assumptions = ["gamma as in C21", "a ClaripyError from constraint_to_si (constraint shape not supported by the balancer) is counted as declined"]
    return rep.finish()


def replay(path: str) -> int:
    """re-runs, in this fresh process, the job (same partition => same history) that contained the case"""
    data = json.load(open(path))
    bad = 0
    cache = {}
    for c in data["cases"]:
        rp = c.get("replay") or {}
        it = rp.get("item")
        if it is None:
            continue
        key = json.dumps(it)
        if key not in cache:
            if cache:
                print("replay: one job per process (history-dependent code under test); re-run for the remaining cases")
                break
            annot = it[1]
            if annot is not None:
                annot = tuple(tuple(a) for a in annot)
            res = _job((it[0], annot, it[2], it[3], it[4], it[5]))
            cache[key] = {f["case"] for f in res["failures"]}
        if c["case"] in cache[key]:
            bad += 1
            print(f"VIOLATION property={PID} replay={path}")
            print("  ", c["case"])
        else:
            print("replay:", c["case"], "holds now")
    return 1 if bad else 0
