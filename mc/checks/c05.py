"""C05 – width, variables, concreteness and depth are reported accurately.

E1 traversal (same transitions as C01).  On every transition the returned node's metadata is
recomputed recursively from the node itself (width implied by op/children, leaf names, depth) and
compared with what the node reports; the reported width is also compared with the width of the
*written* operation and with the truth table (every value fits).  Every NEW state additionally takes
the metadata-touching transitions: annotation edits (make_like fast path), replace / replace_dict with
every leaf -> partner map, claripy.simplify (Z3 round trip), excavate_ite / burrow_ite, canonicalize,
and conversion to Z3 (sort width, free constants).
"""

from __future__ import annotations

import json

import claripy
from claripy.errors import ClaripyError

from .. import exprspace
from ..common import Part, Report
from ..exprspace import site_sig
from ..refsem import DenError, mask, show

PID = "C05"


class _E(claripy.Annotation):  # eliminatable
    eliminatable = True
    relocatable = False

    def __init__(self, tag):
        self.tag = tag

    def __hash__(self):
        return hash(("E", self.tag))

    def __eq__(self, o):
        return type(o) is type(self) and o.tag == self.tag


class _U(_E):  # uneliminatable, not relocatable
    eliminatable = False
    relocatable = False

    def __hash__(self):
        return hash(("U", self.tag))


class _R(_E):  # relocatable
    eliminatable = False
    relocatable = True

    def relocate(self, src, dst):
        return self

    def __hash__(self):
        return hash(("R", self.tag))


ANNOS = [_E("e"), _U("u"), _R("r")]

# ---------------------------------------------------------------------------------------------
# recursive recomputation
# ---------------------------------------------------------------------------------------------

_BIN_SAMEW = set(exprspace.refsem.BV_BIN)


def implied(e, memo):
    """(width|None for Bool, frozenset of leaf names, depth) recomputed from the node's op and children.
    memo maps id(node) -> (result, node); holding the node keeps its id unique."""
    k = id(e)
    r = memo.get(k)
    if r is not None:
        return r[0]
    op, a = e.op, e.args
    if op == "BVV":
        r = (a[1], frozenset(), 1)
    elif op == "BoolV":
        r = (None, frozenset(), 1)
    elif op == "BVS":
        r = (a[1], frozenset([a[0]]), 1)
    elif op == "BoolS":
        r = (None, frozenset([a[0]]), 1)
    else:
        kids = [implied(x, memo) for x in a if isinstance(x, claripy.ast.Base)]
        names = frozenset().union(*[kk[1] for kk in kids]) if kids else frozenset()
        depth = 1 + max((kk[2] for kk in kids), default=0)
        try:
            if op in _BIN_SAMEW or op in ("__neg__", "__invert__", "Reverse"):
                ws = {kk[0] for kk in kids}
                w = kids[0][0] if len(ws) == 1 else ("mixed", tuple(sorted(map(str, ws))))
            elif op == "Extract":
                w = a[0] - a[1] + 1
            elif op in ("ZeroExt", "SignExt"):
                w = a[0] + kids[0][0]
            elif op == "Concat":
                w = sum(kk[0] for kk in kids)
            elif op == "If":
                w = kids[1][0]
                if kids[1][0] != kids[2][0]:
                    w = ("mixed-if", kids[1][0], kids[2][0])
            elif op in exprspace.refsem.BV_CMP or op in ("And", "Or", "Not"):
                w = None
            else:
                raise DenError(f"implied: op {op}")
        except TypeError as ex:  # a child of the wrong sort / width: report it as an implied-width mismatch
            w = ("ill-formed", str(ex)[:60])
        r = (w, names, depth)
    memo[k] = (r, e)
    return r


def expected_width(tr):
    """width of the written operation (None = Bool)"""
    ops = tr.operands
    w = None
    for o in ops:
        if isinstance(o, claripy.ast.BV):
            w = o.length
            if tr.sem != "If":
                break
    sem = tr.sem
    if sem in exprspace.refsem.BV_CMP or sem in ("And", "Or", "Not"):
        return None
    if sem == "If":
        t = ops[1]
        if isinstance(t, claripy.ast.Bool) or isinstance(t, bool):
            return None
        return w
    if sem == "Extract":
        return tr.params[0] - tr.params[1] + 1
    if sem in ("ZeroExt", "SignExt"):
        return w + tr.params[0]
    if sem == "Concat":
        return sum(o.length for o in ops)
    return w


def check_meta(space, r, part, sig, case, memo, table=None):
    """compare the node's reported metadata with the recomputation; returns True if consistent"""
    try:
        w, names, depth = implied(r, memo)
    except DenError as e:
        part.oracle_errors.append(f"{case}: {e}")
        return True
    bad = {}
    if isinstance(r, claripy.ast.BV):
        if r.length != w:
            bad["length"] = {"reported": r.length, "implied": w}
    elif isinstance(r, claripy.ast.Bool):
        if w is not None:
            bad["sort"] = {"reported": "Bool", "implied_width": w}
    if not (frozenset(r.variables) >= names):
        bad["variables"] = {"reported": sorted(r.variables), "occurring": sorted(names)}
    if (not r.symbolic) and names:
        bad["symbolic"] = {"reported": False, "occurring": sorted(names)}
    if r.concrete != (not r.symbolic):
        bad["concrete"] = {"concrete": r.concrete, "symbolic": r.symbolic}
    if r.depth != depth:
        bad["depth"] = {"reported": r.depth, "implied": depth}
    if table is None:
        try:
            table = space.den(r)
        except DenError:
            table = None
    if table is not None:
        if isinstance(r, claripy.ast.BV) and isinstance(r.length, int):
            m = mask(r.length)
            if any((v & m) != v for v in table):
                bad["value-exceeds-width"] = {"length": r.length, "max": max(table)}
        if not r.symbolic:
            try:
                cv = r.concrete_value
            except Exception as e:  # noqa: BLE001
                cv = ("raised", type(e).__name__)
            vals = set(table)
            if len(vals) != 1 or cv != next(iter(vals)):
                bad["concrete_value"] = {"reported": str(cv), "denotes": sorted(map(int, vals))[:4]}
    if bad:
        part.fail(sig + ":" + "+".join(sorted(bad)), case, {"node": show(r), **bad}, None)
        return False
    return True


# ---------------------------------------------------------------------------------------------
# monitor
# ---------------------------------------------------------------------------------------------


def _state_followups(space, r, part, key, memo):
    """metadata-touching transitions from a new state"""
    origin = f"w={space.w}|{key}"
    try:
        base_tab = space.den(r)
    except DenError:
        return
    # -- annotation edits -------------------------------------------------------------------
    for an in ANNOS:
        for name, f in (
            ("annotate", lambda an=an: r.annotate(an)),
            ("append_annotation", lambda an=an: r.append_annotation(an)),
            ("insert_annotation", lambda an=an: r.insert_annotation(an)),
        ):
            part.count("transitions")
            part.count("followup_annotation")
            try:
                q = f()
            except Exception as e:  # noqa: BLE001
                part.fail(f"{name}:raised:{type(e).__name__}", f"{origin}|{name}:{an.tag}", str(e)[:200])
                continue
            ok = check_meta(space, q, part, f"meta:{name}", f"{origin}|{name}:{an.tag}", memo)
            if ok and an not in q.annotations:
                part.fail(f"meta:{name}:annotation-missing", f"{origin}|{name}:{an.tag}", {"node": show(q)})
            # and back again
            for name2, g in (("remove_annotation", lambda: q.remove_annotation(an)), ("clear_annotations", lambda: q.clear_annotations())):
                part.count("transitions")
                try:
                    q2 = g()
                except Exception as e:  # noqa: BLE001
                    part.fail(f"{name2}:raised:{type(e).__name__}", f"{origin}|{name}:{an.tag}|{name2}", str(e)[:200])
                    continue
                check_meta(space, q2, part, f"meta:{name2}", f"{origin}|{name}:{an.tag}|{name2}", memo)
    # a node rebuilt with annotated children: annotate a leaf inside, then operate again
    # -- replace ----------------------------------------------------------------------------
    leaves = list(space.bvs) + list(space.bools)
    for old in leaves:
        if isinstance(old, claripy.ast.BV):
            news = [v for v in space.bvs if v is not old] + [claripy.BVV(0, space.w), claripy.BVV(mask(space.w), space.w), old + 1, claripy.If(space.bools[0], old, claripy.BVV(1, space.w))]
        else:
            news = [claripy.true(), claripy.false(), claripy.Not(old), space.bvs[0] == 0]
        for new in news:
            part.count("transitions")
            part.count("followup_replace")
            case = f"{origin}|replace:{show(old)}->{show(new)}"
            try:
                q = claripy.replace(r, old, new)
            except ClaripyError as e:  # whether a utility may raise here is C04/C08's business
                part.count("followup_raised")
                part.note("followup_raised_types", "replace:" + type(e).__name__)
                continue
            except Exception as e:  # noqa: BLE001
                part.fail(f"replace:raised:{type(e).__name__}", case, str(e)[:200])
                continue
            check_meta(space, q, part, "meta:replace", case, memo)
    # replace inside a node that carries annotations of its own (make_like must not copy the old node's metadata)
    if not r.is_leaf():
        for an in ANNOS[1:]:
            try:
                q0 = r.annotate(an)
            except Exception:  # noqa: BLE001
                continue
            for old in leaves:
                new = (space.bvs[1] if old is space.bvs[0] else space.bvs[0]) if isinstance(old, claripy.ast.BV) else claripy.Not(old)
                for new_ in (new, claripy.BVV(1 & mask(space.w), space.w) if isinstance(old, claripy.ast.BV) else claripy.true()):
                    part.count("transitions")
                    part.count("followup_replace_annotated")
                    case = f"{origin}|annotate:{an.tag}|replace:{show(old)}->{show(new_)}"
                    try:
                        q = claripy.replace(q0, old, new_)
                    except ClaripyError:
                        part.count("followup_raised")
                        continue
                    except Exception as e:  # noqa: BLE001
                        part.fail(f"replace:raised:{type(e).__name__}", case, str(e)[:200])
                        continue
                    check_meta(space, q, part, "meta:replace-annotated", case, memo)
    if len(space.bvs) >= 2:
        part.count("transitions")
        x, y = space.bvs[0], space.bvs[1]
        case = f"{origin}|replace_dict:swap"
        try:
            q = claripy.replace_dict(r, {x.hash(): y, y.hash(): x})
            check_meta(space, q, part, "meta:replace_dict", case, memo)
        except Exception as e:  # noqa: BLE001
            part.fail(f"replace_dict:raised:{type(e).__name__}", case, str(e)[:200])
    # -- ITE relocation, canonicalize ---------------------------------------------------------
    for name, f in (
        ("excavate_ite", lambda: claripy.excavate_ite(r)),
        ("burrow_ite", lambda: claripy.burrow_ite(r)),
        ("canonicalize", lambda: r.canonicalize()[2]),
    ):
        part.count("transitions")
        part.count("followup_" + name)
        case = f"{origin}|{name}"
        try:
            q = f()
        except ClaripyError as e:  # e.g. excavate_ite folding a concrete x/0: C04/C08 decide
            part.count("followup_raised")
            part.note("followup_raised_types", name + ":" + type(e).__name__)
            continue
        except Exception as e:  # noqa: BLE001
            part.fail(f"{name}:raised:{type(e).__name__}", case, str(e)[:200])
            continue
        if name == "canonicalize":
            # canonical names are outside the scope: recompute structure only (no table)
            try:
                w, names, depth = implied(q, memo)
                bad = {}
                if isinstance(q, claripy.ast.BV) and q.length != w:
                    bad["length"] = (q.length, w)
                if not frozenset(q.variables) >= names:
                    bad["variables"] = (sorted(q.variables), sorted(names))
                if q.depth != depth:
                    bad["depth"] = (q.depth, depth)
                if (not q.symbolic) and names:
                    bad["symbolic"] = False
                if bad:
                    part.fail("meta:canonicalize:" + "+".join(sorted(bad)), case, {"node": show(q), **{k: str(v) for k, v in bad.items()}})
            except DenError:
                pass
        else:
            check_meta(space, q, part, "meta:" + name, case, memo)


def _z3_followup(space, r, part, key, memo, simplify=True):
    import z3

    origin = f"w={space.w}|{key}"
    part.count("transitions")
    part.count("followup_z3")
    try:
        t = claripy.backends.z3.convert(r)
    except ClaripyError:
        part.count("z3_unsupported")
        return
    if isinstance(r, claripy.ast.BV):
        zw = t.size() if z3.is_bv(t) else None
        if zw != r.length:
            part.fail("meta:z3:width", origin, {"node": show(r), "length": r.length, "z3_sort_width": zw})
    # free constants of the Z3 term must all be reported variables
    names = set()
    todo, seen = [t], set()
    while todo:
        u = todo.pop()
        if u.get_id() in seen:
            continue
        seen.add(u.get_id())
        if z3.is_const(u) and u.decl().kind() == z3.Z3_OP_UNINTERPRETED:
            names.add(u.decl().name())
        todo.extend(u.children())
    if not names <= set(r.variables):
        part.fail("meta:z3:variables", origin, {"node": show(r), "reported": sorted(r.variables), "z3_free": sorted(names)})
    if simplify and not r.is_leaf():
        part.count("transitions")
        part.count("followup_simplify")
        try:
            q = claripy.simplify(r)
        except ClaripyError as e:
            part.count("simplify_unsupported")
            part.note("simplify_errors", type(e).__name__)
            return
        except Exception as e:  # noqa: BLE001
            part.fail(f"simplify:raised:{type(e).__name__}", origin + "|simplify", str(e)[:200])
            return
        check_meta(space, q, part, "meta:simplify", origin + "|simplify", memo)


def rewrite_sensitive_or_shallow(r):
    return r.depth <= 2 or exprspace.rewrite_sensitive(r)


def monitor(space, tr, part, opts):
    part.count("transitions")
    try:
        r = tr.build()
    except Exception:  # noqa: BLE001   (C01/C04 decide about exceptions)
        part.count("raised")
        return None
    if r is NotImplemented or not isinstance(r, claripy.ast.Base):
        return None
    memo = space.__dict__.setdefault("_c05_memo", {})
    seen = space.__dict__.setdefault("_c05_seen", set())
    case = f"w={space.w}|{tr.key}"
    ok = check_meta(space, r, part, "meta:" + site_sig(tr), case, memo)
    ew = expected_width(tr)
    if isinstance(r, claripy.ast.BV):
        if ew is None or r.length != ew:
            part.fail("width:" + site_sig(tr), case, {"node": show(r), "reported": r.length, "written": ew})
            ok = False
    elif isinstance(r, claripy.ast.Bool) and ew is not None:
        part.fail("width:" + site_sig(tr), case, {"node": show(r), "reported": "Bool", "written": ew})
        ok = False
    if ok:
        part.sample({"w": space.w, "transition": tr.key, "node": show(r), "length": r.length, "variables": sorted(r.variables), "depth": r.depth}, limit=2)
    if id(r) not in seen:
        seen.add(id(r))
        space.__dict__.setdefault("_c05_keep", []).append(r)
        if opts.get("followups", True) and (r.depth <= opts.get("followup_depth", 3)):
            _state_followups(space, r, part, tr.key, memo)
            _z3_followup(space, r, part, tr.key, memo, simplify=opts.get("simplify", True))
        elif rewrite_sensitive_or_shallow(r):
            _z3_followup(space, r, part, tr.key, memo, simplify=False)
    return r


def _chain_job(item):
    """flattening / cancellation rewrites need chains: ((a op b) op c) op d over operands that share variables"""
    import operator

    w, opname = item
    part = Part()
    space = exprspace.Space(w)
    memo = {}
    x, y = space.bvs
    pool = [x, y, x + y, x & y, x ^ y, ~x, claripy.BVV(0, w), claripy.BVV(mask(w), w), x + 1]
    f = {"xor": operator.xor, "and": operator.and_, "or": operator.or_, "add": operator.add, "mul": operator.mul, "sub": operator.sub}[opname]
    import itertools

    for n in (3, 4):
        for tup in itertools.product(pool, repeat=n):
            for assoc in ("left", "right"):
                part.count("transitions", n - 1)
                part.count("chain_constructions")
                try:
                    if assoc == "left":
                        e = tup[0]
                        for t in tup[1:]:
                            e = f(e, t)
                    else:
                        e = tup[-1]
                        for t in reversed(tup[:-1]):
                            e = f(t, e)
                except Exception:  # noqa: BLE001
                    continue
                check_meta(space, e, part, f"meta:chain:{opname}", f"w={w}|chain:{opname}:{assoc}|" + "|".join(show(t) for t in tup), memo)
    part.sample({"w": w, "chain_op": opname, "operands": len(pool)}, limit=1)
    return part.dump()


def _misc_job(_):
    """two drivers for metadata that only shows on particular shapes"""
    import itertools

    part = Part()
    memo = {}

    class Sp:  # the little of Space that check_meta needs when no truth table is available
        w = 0

        @staticmethod
        def den(e):
            raise DenError("no scope")

    # (1) variables that share an explicit name but not a width, all round-tripped through Z3 in one thread
    for wa, wb in ((8, 32), (32, 8), (1, 8), (16, 64), (64, 16)):
        a = claripy.BVS("samename", wa, explicit_name=True)
        b = claripy.BVS("samename", wb, explicit_name=True)
        exprs = [a * 3 + 2 + 5, b * 3 + 2 + 5, claripy.Concat(a, b), claripy.ZeroExt(wb, a) if wa < wb else claripy.ZeroExt(wa, b), (a + 1) == 7, claripy.If(claripy.ULT(b, 3), b, b + 1), a ^ (a + 1), claripy.SignExt(1, b) + 1]
        for e in exprs:
            for name, f in (("claripy.simplify", claripy.simplify), ("z3.simplify", claripy.backends.z3.simplify)):
                part.count("transitions")
                part.count("same_name_round_trips")
                case = f"samename|{wa}/{wb}|{name}|{show(e)}"
                try:
                    q = f(e)
                except ClaripyError:
                    part.count("followup_raised")
                    continue
                except Exception as ex:  # noqa: BLE001
                    part.fail(f"samename:raised:{type(ex).__name__}", case, str(ex)[:160])
                    continue
                if isinstance(q, claripy.ast.BV) and q.length != e.length:
                    part.fail("meta:samename:length-changed", case, {"before": e.length, "after": q.length, "node": show(q)})
                check_meta(Sp, q, part, "meta:samename", case, memo)
                try:
                    claripy.backends.z3.convert(q)
                except Exception as ex:  # noqa: BLE001
                    part.fail("meta:samename:not-convertible-any-more", case, {"node": show(q), "error": str(ex)[:120]})
    # (2) If whose branches are the same width-changing / Boolean-valued operation: burrow / excavate keep the width
    for w in (2, 8):
        sp = exprspace.Space(w)
        x, y = sp.bvs
        c = sp.bools[0]
        inner = [x + 1, y + 1, x ^ y, x & 1, ~y]
        conds = [c, claripy.ULT(x, y), claripy.And(c, x == 1)]
        z = y
        mk = {
            "ZeroExt8": lambda t: claripy.ZeroExt(8, t),
            "SignExt3": lambda t: claripy.SignExt(3, t),
            "Concat(.,1#4)": lambda t: claripy.Concat(t, claripy.BVV(1, 4)),
            "Concat(z,.)": lambda t: claripy.Concat(z, t),
            "Extract0": lambda t: t[0:0],
            "ULT(.,z)": lambda t: claripy.ULT(t, z),
            "==z": lambda t: t == z,
            "+z": lambda t: t + z,
        }
        for (opn, f), (a, b), cond in itertools.product(mk.items(), itertools.permutations(inner, 2), conds):
            try:
                e = claripy.If(cond, f(a), f(b))
            except ClaripyError:
                continue
            for name in ("burrow_ite", "excavate_ite"):
                part.count("transitions")
                part.count("ite_width_cases")
                case = f"w={w}|{name}|If({show(cond)},{opn}({show(a)}),{opn}({show(b)}))"
                try:
                    q = getattr(claripy, name)(e)
                except ClaripyError:
                    part.count("followup_raised")
                    continue
                except Exception as ex:  # noqa: BLE001
                    part.fail(f"{name}:raised:{type(ex).__name__}", case, str(ex)[:160])
                    continue
                if type(q) is not type(e) or getattr(q, "length", None) != getattr(e, "length", None):
                    part.fail(f"meta:{name}:sort-or-width-changed", case, {"before": [type(e).__name__, e.length], "after": [type(q).__name__, q.length], "node": show(q)})
                check_meta(sp, q, part, f"meta:{name}:family", case, memo)
    return part.dump()


def run(tier: str) -> int:
    rep = Report(
        PID,
        tier,
        "model_checking",
        rule="E1 BFS (as C01); on every transition the result's length / variables / symbolic / concrete / depth / "
        "concrete_value are compared with a recursive recomputation from the node, with the width of the written "
        "operation and with the truth table; every distinct state also takes annotation edits (3 annotation kinds x "
        "annotate/append/insert then remove/clear), replace with every leaf->partner map, replace_dict swap, "
        "excavate_ite, burrow_ite, canonicalize, Z3 conversion (sort width, free constants) and claripy.simplify",
    )
    if tier == "quick":
        cfgs = [dict(w=1, depth=2), dict(w=2, depth=2), dict(w=3, depth=2, full=False, opts={"followups": False})]
    else:
        cfgs = [dict(w=1, depth=3), dict(w=2, depth=3), dict(w=3, depth=2), dict(w=4, depth=2, full=False)]
    exprspace.run_e1(rep, "mc.checks.c05:monitor", cfgs)
    from ..common import pmap

    for res in pmap(_chain_job, [(w, o) for w in ((2,) if tier == "quick" else (2, 3)) for o in ("xor", "and", "or", "add", "mul", "sub")]):
        rep.merge(res)
    for res in pmap(_misc_job, [0]):
        rep.merge(res)
    rep.assumptions = [
        "variables may over-approximate (superset) – only missing variables are failures",
        "width/depth recomputation covers the BV/Bool operator set of E1; FP/string metadata is exercised by C02/C03/C18",
    ]
    return rep.finish()


def replay(path: str) -> int:
    with open(path) as f:
        data = json.load(f)
    bad = 0
    for c in data["cases"]:
        case = c["case"]
        w = int(case.split("|", 1)[0][2:])
        rest = case.split("|", 1)[1]
        sp = exprspace.Space(w)
        # the transition key is the longest prefix of `rest` that names a transition
        parts = rest.split("|")
        found = None
        for n in range(len(parts), 0, -1):
            found = exprspace.find_transition(sp, "|".join(parts[:n]))
            if found is not None:
                break
        if found is None:
            print(f"replay: transition for {case} not found")
            continue
        p = Part()
        monitor(sp, found, p, {})
        hits = [f for f in p.failures if f["case"] == case]
        if hits:
            bad += 1
            print(f"VIOLATION property={PID} replay={path}")
            print("  ", json.dumps(hits[0], default=str)[:600])
        else:
            print(f"replay: {case} holds now")
    return 1 if bad else 0
