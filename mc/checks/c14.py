"""C14 – branches of a solver are isolated from each other (E4 over a tree of solvers).

Events carry a target; `fork t` appends targets[t].branch().  All interleavings of events on every
member of the tree are explored breadth-first.  Oracle (differential): an answer of target t that is
wrong w.r.t. t's own constraint list is a *leak* iff t's projection (only the events t and its
ancestors experienced, siblings replaced by fork-and-drop) answers the same call correctly.
"""

from __future__ import annotations

import time

from .. import histspace as H
from ..common import Report
from . import c11

PID = "C14"


def run(tier: str) -> int:
    rep = Report(
        PID,
        tier,
        "model_checking",
        rule="E4 over trees of branched solvers: prefix of <=k events on the root, fork, then every interleaving of "
        "<=m events over all members (adds, eval, min/max, satisfiable, simplify, downsize, nested fork); an answer is "
        "compared with the member's own brute-force reference; wrong answers are confirmed as leaks by replaying the "
        "member's projection alone; states merged on the canonical dump of all members together",
    )
    u3 = H.universe("bv3")
    pre3 = [("add", "x!=0"), ("add", "x+y==5"), ("eval", "x", 9, "none"), ("eval", "x+y", 2, "none"), ("sat", "none"), ("max", "x", "u", "none")]
    post3 = [("add", "x==3"), ("add", "x<u5"), ("add", "y>u6"), ("eval", "x", 9, "none"), ("beval", "x,y", 9, "none"), ("max", "x", "u", "none"), ("min", "x", "s", "none"), ("sat", "none"), ("simplify",), ("downsize",)]
    pre4 = [("add", "x+y==3"), ("add", "z!=0"), ("eval", "x+z", 9, "none"), ("eval", "u", 9, "none"), ("max", "x+y", "u", "none"), ("sat", "none")]
    post4 = [("add", "x==1"), ("add", "y==z"), ("add", "u==z+1"), ("eval", "x+z", 9, "none"), ("eval", "x", 9, "none"), ("max", "x+y", "u", "none"), ("max", "y+u", "s", "none"), ("sat", "none"), ("simplify",), ("downsize",)]
    if True:
        q_pre3 = [("add", "x!=0"), ("add", "x+y==5"), ("eval", "x", 9, "none"), ("max", "x", "u", "none")]
        q_post3 = [("add", "x==3"), ("add", "x<u5"), ("eval", "x", 9, "none"), ("max", "x", "u", "none"), ("sat", "none"), ("simplify",)]
        q_pre4 = [("add", "x+y==3"), ("eval", "x+z", 9, "none"), ("max", "x+y", "u", "none"), ("eval", "u", 9, "none")]
        q_post4 = [("add", "x==1"), ("add", "y==z"), ("eval", "x+z", 9, "none"), ("max", "x+y", "u", "none"), ("eval", "u", 9, "none"), ("simplify",)]
        vsa_post = [("add", "x<u5"), ("add", "x==3"), ("max", "x", "u", "none"), ("min", "x", "u", "none"), ("eval", "x", 9, "none"), ("downsize",)]
        plan = [
            ("bv3", "Solver", {}, q_pre3, q_post3, 1, 3, 1, ""),
            ("bv2x4", "SolverComposite", {}, q_pre4, q_post4, 1, 3, 1, ""),
            ("bv3", "SolverCacheless", {}, [("add", "x!=0"), ("sat", "none"), ("eval", "x", 9, "none")], [("add", "x==3"), ("max", "x", "u", "none"), ("eval", "x", 9, "none")], 2, 3, 2, "forks2"),
            ("bv2x4", "SolverComposite", {}, [("add", "x!=2"), ("add", "y<u2"), ("sol", "x+y", 3, "none"), ("eval", "x+y", 1, "none")], [("add", "x+y==3"), ("max", "x+y", "u", "none"), ("sol", "x+y", 2, "none"), ("eval", "x+y", 9, "none")], 3, 2, 1, "cross"),
            # a solver object that exists before the fork and is dropped / reset by one member afterwards
            ("bv3", "Solver", {}, [("add", "x!=0"), ("add", "x+y==5"), ("sat", "none"), ("sol", "x", 5, "none")], [("downsize",), ("sat", "x==6"), ("sol", "x", 0, "none"), ("eval", "x", 1, "none"), ("add", "x==3")], 3, 2, 1, "downsize"),
            ("bv3", "SolverCacheless", {}, [("add", "x!=0"), ("sat", "none")], [("downsize",), ("min", "x", "u", "none"), ("sol", "x", 0, "none"), ("add", "x==3")], 2, 2, 1, "downsize"),
            # the same parent branched twice (the later branch must be as private as the first)
            ("bv3", "SolverCacheless", {}, [("add", "x!=0"), ("sat", "none")], [("add", "x==3"), ("sat", "none"), ("sol", "x", 5, "none"), ("min", "x", "u", "none")], 2, 4, 2, "twice"),
            ("bv3", "Solver", {}, [("add", "x!=0"), ("sat", "none")], [("add", "x==3"), ("sat", "none"), ("sol", "x", 5, "none")], 2, 4, 2, "twice"),
            ("bv3", "SolverHybrid", {}, q_pre3[:3], q_post3[:5], 1, 2, 1, ""),
            ("bv3", "SolverReplacement", {}, [("add", "x!=0"), ("eval", "x", 9, "none")], q_post3[:5], 1, 2, 1, ""),
            ("bv3", "SolverReplacementVSA", {"approx": True}, [("add", "x<u5"), ("add", "x!=0"), ("max", "x", "u", "none")], vsa_post, 2, 3, 1, ""),
            ("bv3", "SolverHybrid", {"exact_false": True, "approx": True}, [("add", "x<u5"), ("max", "x", "u", "none")], vsa_post, 1, 3, 1, "exact=False"),
        ]
    if tier == "thorough":
        # the same configurations with one more prefix event, plus the larger alphabets at moderate depth and solver reuse
        # (interleavings of 4 events over two members with the 10-event alphabets would take days)
        plan = [(u, c_, g, pre, post, pd + 1, qd, mf, tag) for (u, c_, g, pre, post, pd, qd, mf, tag) in plan]
        plan += [
            ("bv3", "Solver", {}, pre3, post3, 2, 2, 1, "full-alphabet"),
            ("bv3", "SolverCacheless", {}, pre3, post3, 2, 2, 1, "full-alphabet"),
            ("bv2x4", "SolverComposite", {}, pre4, post4, 2, 2, 1, "full-alphabet"),
            ("bv3", "Solver", {"reuse": True}, q_pre3, q_post3, 2, 3, 1, "reuse"),
        ]
    for uni, cls, cfg, pre, post, pd, qd, mf, tag in plan:
        t0 = time.time()
        H.explore_tree(rep, uni, cls, cfg, pre, post, pd, qd, max_forks=mf, tag=tag)
        rep.extra.setdefault("plan_seconds", []).append(f"{cls}[{tag}] pre<={pd} post<={qd} forks<={mf}: {time.time() - t0:.1f}s")
    rep.assumptions = ["a wrong answer that the member's own projection reproduces is not a leak (C11-C13 decide it)"]
    return rep.finish()


def replay(path: str) -> int:
    c11.PID = PID
    return c11.replay(path)
