"""C12 – SolverComposite answers like a monolithic solver after any history (E4, universe of four
2-bit variables whose constraints connect and disconnect child solvers in every order)."""

from __future__ import annotations

import time

from .. import histspace as H
from ..common import Report
from . import c11

PID = "C12"


def run(tier: str) -> int:
    rep = Report(
        PID,
        tier,
        "model_checking",
        rule="E4 on SolverComposite: BFS over histories of add / satisfiable / eval / batch_eval / min / max / solution / "
        "simplify / downsize / branch / pickle over x,y,z,u:BV2 (256 assignments) with constraints that connect and "
        "disconnect variable groups in every order and queries/extras spanning 0, 1 or 2 children; answers compared with "
        "the brute-force model set; canonical key includes child map, ownership, unchecked and merged-solver caches",
    )
    uni = H.universe("bv2x4")
    ev = H.default_events(uni)
    ev_small = [
        e
        for e in ev
        if (e[0] == "add" and e[1] in ("x==1", "x+y==3", "y==z", "z!=0", "u==z+1"))
        or e[0] in ("branch", "simplify", "pickle", "downsize")
        or e in (("sat", "none"), ("eval", "x+z", 9, "none"), ("eval", "x", 9, "z==y+1"), ("max", "x+z", "u", "none"), ("min", "y", "u", "z==y+1"), ("beval", "y,u", 9, "u==3"), ("eval", "z", 9, "none"), ("sol", "x+y", 3, "none"))
    ]
    drop = {("add", "x^z==1"), ("add", "u>s0"), ("eval", "u", 1, "none"), ("eval", "z", 9, "none"), ("min", "y+u", "s", "none"), ("max", "y+u", "s", "none"), ("sol", "z", 0, "x==2"), ("min", "z", "s", "none")}
    ev_q = [e for e in ev if e not in drop]
    ev_small_q = [e for e in ev_small if e not in {("downsize",), ("eval", "z", 9, "none")}]
    # bridging: two groups of two variables each, then a constraint that joins them, a re-split, a query
    ev_bridge = [("add", "x+y==3"), ("add", "u==z+1"), ("add", "y==z"), ("simplify",), ("max", "x+z", "u", "none"), ("eval", "u", 9, "none")]
    # an unsatisfiable child that the query (with extra constraints on other variables) does not touch
    ev_unsatchild = [("add", "x<u1"), ("add", "x>u2"), ("add", "z!=0"), ("eval", "u", 1, "none"), ("beval", "y,u", 9, "u==3"), ("eval", "z", 9, "none"), ("max", "y", "u", "z==y+1"), ("sat", "none"), ("sat", "z==y+1"), ("sol", "z", 0, "x==2")]
    if tier == "quick":
        plan = [("SolverComposite", {}, ev_unsatchild, 4, 3, "unsatchild4"), ("SolverComposite", {}, ev_q, 3, 2, ""), ("SolverComposite", {}, ev_small_q, 4, 3, "small4"), ("SolverComposite", {}, ev_bridge, 5, 3, "bridge5")]
    else:
        plan = [
            ("SolverComposite", {}, ev, 3, 3, ""),
            ("SolverComposite", {}, ev_small, 5, 3, "small5"),
            ("SolverComposite", {"reuse": True}, ev_small, 4, 3, "reuse"),
            ("SolverComposite", {"track": True}, ev_small, 4, 3, "track"),
            ("SolverComposite", {}, ev_unsatchild + [("simplify",), ("branch",)], 5, 3, "unsatchild5"),
            ("SolverComposite", {}, ev_bridge + [("eval", "x", 9, "none"), ("branch",)], 6, 3, "bridge6"),
        ]
    for cls, cfg, events, depth, max_adds, tag in plan:
        t0 = time.time()
        H.explore(rep, PID, "bv2x4", cls, cfg, events, depth, max_adds=max_adds, tag=tag)
        rep.extra.setdefault("plan_seconds", []).append(f"{cls}[{tag}] depth={depth} events={len(events)}: {time.time() - t0:.1f}s")
    rep.assumptions = ["as C11"]
    return rep.finish()


def replay(path: str) -> int:
    c11.PID = PID
    return c11.replay(path)
