"""C24 – VSA evaluation of expressions is sound.

E1 traversal in which the variables x, y carry a StridedIntervalAnnotation (every pair from an interval
alphabet incl. wrapping, strided, constant and TOP forms; one Space per pair so that a variable has one
annotation).  Every AST produced is converted with backends.vsa.convert and the result must contain
every value the expression takes when x, y range over their intervals (c free):
        gamma(result) >= { den(e)[env] | env[x] in gamma(SIx), env[y] in gamma(SIy) }      (all envs enumerated)
Bool results must admit every occurring truth value.  SolverVSA / SolverHybrid(approximate) answers
(min, max, eval, solution, is_true / is_false) over the same expressions are checked against the same set.

Blame: the interval transfer functions themselves are C21's business (many are listed as unsound there).
A failing expression is excused iff some plain transfer-function node inside it is already locally
unsound on the abstract operands it received (its result misses op(a, b) for some a, b in the operands'
concretisations); what remains are failures of the lifting: If, Boolean connectives, leaf / annotation
conversion, ITE excavation, n-ary reduction, the backend's op table.  Division by a divisor that may be
zero is skipped (the domain leaves it unspecified).
"""

from __future__ import annotations

import itertools
import json

import claripy
from claripy.annotation import StridedIntervalAnnotation
from claripy.backends.backend_vsa.bool_result import BoolResult
from claripy.backends.backend_vsa.strided_interval import StridedInterval
from claripy.errors import ClaripyError

from .. import exprspace, refsem
from .. import sispace as S
from ..common import Part, Report, pmap
from ..exprspace import site_sig
from ..refsem import DenError, mask, show

PID = "C24"

PLAIN = set(refsem.BV_BIN) | set(refsem.BV_CMP) | {"__neg__", "__invert__", "Extract", "ZeroExt", "SignExt", "Concat", "Reverse"}


def si_alphabet(w, size):
    m = mask(w)
    if w == 1:
        return [(1, 0, 1), (0, 0, 0), (0, 1, 1)]
    if w == 2:
        a = [(1, 0, 3), (0, 2, 2), (1, 1, 2), (2, 1, 3), (1, 3, 0), (1, 2, 1), (3, 0, 3)]
        return a if size == "full" else a[:4]
    a = [(1, 0, m), (0, 3, 3), (1, 1, 5), (2, 1, 5), (1, 6, 2), (2, 5, 1), (3, 0, 6), (1, 4, 7), (1, 0, 3), (4, 1, 5), (1, m, 0), (3, 6, 4)]
    return a if size == "full" else a[:7]


def gamma_any(v, width=None):
    if isinstance(v, StridedInterval):
        return S.gamma(v)
    if isinstance(v, BoolResult):
        return frozenset(v.value)
    if isinstance(v, bool):
        return frozenset([v])
    if isinstance(v, int):
        return frozenset([v & mask(width)]) if width else frozenset([v])
    raise TypeError(type(v).__name__)


def vsa(e):
    return claripy.backends.vsa.convert(e)


def subasts(e):
    out, seen, todo = [], set(), [e]
    while todo:
        a = todo.pop()
        if id(a) in seen:
            continue
        seen.add(id(a))
        out.append(a)
        todo.extend(x for x in a.args if isinstance(x, claripy.ast.Base))
    return out


def locally_unsound_plain_node(e):
    """is there a plain transfer-function node in e whose abstract result misses op(operands' members)?"""
    for n in subasts(e):
        if n.op not in PLAIN or n.is_leaf():
            continue
        if n.op in ("__eq__", "__ne__") and isinstance(n.args[0], claripy.ast.Bool):
            continue  # Boolean (dis)equality is the backend's own three-valued logic, not an interval transfer function
        try:
            kids = [a for a in n.args if isinstance(a, claripy.ast.Base)]
            A = [gamma_any(vsa(k), getattr(k, "length", None)) for k in kids]
            Rn = gamma_any(vsa(n), getattr(n, "length", None))
        except Exception:  # noqa: BLE001
            return True, n.op + ":conversion-raised"
        widths = [getattr(k, "length", None) for k in kids]
        params = tuple(a for a in n.args if not isinstance(a, claripy.ast.Base))
        try:
            for vals in itertools.product(*A):
                tabs = [(v,) for v in vals]
                if n.op == "Extract":
                    r = refsem.apply_tables("Extract", tabs, widths, params)[0]
                elif n.op in ("ZeroExt", "SignExt"):
                    r = refsem.apply_tables(n.op, tabs, widths, params)[0]
                else:
                    r = refsem.apply_tables(n.op, tabs, widths)[0]
                if r not in Rn:
                    return True, n.op
        except Exception:  # noqa: BLE001
            return True, n.op + ":refsem"
    return False, None


def may_divide_by_zero(e):
    for n in subasts(e):
        if n.op in refsem.DIV_OPS:
            try:
                if 0 in gamma_any(vsa(n.args[1]), n.args[1].length):
                    return True
            except Exception:  # noqa: BLE001
                return True
    return False


def allowed_envs(space):
    sc = space.scope
    gx, gy = space._c24_gamma
    nx, ny = sc.bvs[0][0], sc.bvs[1][0]
    tx, ty = sc.var_table(nx), sc.var_table(ny)
    return [i for i in range(sc.N) if tx[i] in gx and ty[i] in gy]


def judge(space, r, part, case, sig, replay):
    """global containment for one AST; returns True if judged ok / excused"""
    try:
        tab = space.den(r)
    except DenError as e:
        part.oracle_errors.append(f"{case}: {e}")
        return True
    envs = space.__dict__.get("_c24_envs")
    if envs is None:
        envs = space.__dict__["_c24_envs"] = allowed_envs(space)
    V = {tab[i] for i in envs}
    try:
        R = vsa(r)
        G = gamma_any(R, getattr(r, "length", None))
    except ClaripyError:
        part.count("vsa_unsupported")
        return True
    except RecursionError:
        part.count("vsa_recursion_error_in_transfer_function")  # C21 lists these (rshift_arith)
        return True
    except Exception as e:  # noqa: BLE001
        if may_divide_by_zero(r):
            part.count("division_by_maybe_zero_skipped")
            return True
        bad, why = locally_unsound_plain_node(r)
        if bad:
            part.count("excused_transfer_function_c21")
            return True
        part.fail(f"{sig}:raised:{type(e).__name__}", case, {"expr": show(r), "error": str(e)[:160]}, replay)
        return False
    missing = V - G
    if not missing:
        return True
    if may_divide_by_zero(r):
        part.count("division_by_maybe_zero_skipped")
        return True
    bad, why = locally_unsound_plain_node(r)
    if bad:
        part.count("excused_transfer_function_c21")
        part.note("excused_ops", why)
        return True
    part.fail(
        f"{sig}:unsound",
        case,
        {"expr": show(r), "vsa": str(R)[:80], "missing": sorted(map(int, missing))[:6], "intervals": space._c24_label},
        replay,
    )
    return False


def monitor(space, tr, part, opts):
    part.count("transitions")
    try:
        r = tr.build()
    except Exception:  # noqa: BLE001
        return None
    if r is NotImplemented or not isinstance(r, claripy.ast.Base):
        return None
    seen = space.__dict__.setdefault("_c24_seen", {})
    if id(r) in seen:
        return r
    seen[id(r)] = r
    part.count("vsa_conversions")
    case = f"w={space.w}|{space._c24_label}|{tr.key}"
    ok = judge(space, r, part, case, "convert:" + r.op, {"kind": "e1", "w": space.w, "si": space._c24_spec, "key": tr.key})
    if ok:
        part.sample({"w": space.w, "intervals": space._c24_label, "expr": show(r)}, limit=1)
    if ok and opts.get("solver") and isinstance(r, claripy.ast.BV) and r.symbolic and r.depth <= 2:
        solver_queries(space, r, part, case)
    return r


def solver_queries(space, r, part, case):
    tab = space.den(r)
    envs = space._c24_envs
    V = sorted({tab[i] for i in envs})
    w = r.length
    try:
        G = gamma_any(vsa(r), w)
    except Exception:  # noqa: BLE001
        return
    if not set(V) <= G:
        return  # already excused above
    # the interval's OWN queries (signed min / max, solution) are C22's property and partly listed there: an answer of
    # the solver that only repeats a wrong interval-level query on a sound interval is excused (counted)
    R_ = vsa(r)
    si_ok = {"smin": True, "smax": True, "sol": True}
    if isinstance(R_, StridedInterval) and G:
        sG = sorted(refsem.sx(v, w) for v in G)
        try:
            if refsem.sx(R_.min(signed=True) & mask(w), w) > sG[0]:
                si_ok["smin"] = False
            if refsem.sx(R_.max(signed=True) & mask(w), w) < sG[-1]:
                si_ok["smax"] = False
            for v in V[:4]:
                if not R_.solution(v):
                    si_ok["sol"] = False
        except Exception:  # noqa: BLE001
            si_ok = {"smin": False, "smax": False, "sol": False}
    for cls in ("SolverVSA", "SolverHybrid"):
        s = claripy.SolverVSA() if cls == "SolverVSA" else claripy.SolverHybrid()
        kw = {} if cls == "SolverVSA" else {"exact": False}
        part.count("transitions", 4)
        part.count("solver_queries", 4)
        try:
            lo = s.min(r, **kw)
            hi = s.max(r, **kw)
            ev = s.eval(r, 1 << w, **kw)
            so = [s.solution(r, v, **kw) for v in V[:4]]
        except ClaripyError:
            part.count("solver_declined")
            continue
        except Exception as e:  # noqa: BLE001
            part.fail(f"{cls}:raised:{type(e).__name__}", case + "|" + cls, {"expr": show(r), "error": str(e)[:160]})
            continue
        # signed extrema, asked after the unsigned ones (an answer must not be remembered across signedness)
        try:
            slo = s.min(r, signed=True, **kw)
            shi = s.max(r, signed=True, **kw)
            sV = sorted(refsem.sx(v, w) for v in V)
            part.count("transitions", 2)
            part.count("solver_queries", 2)
            if not si_ok["smin"] or not si_ok["smax"]:
                part.count("excused_interval_query_c22")
            elif slo is not None and refsem.sx(slo & mask(w), w) > sV[0]:
                part.fail(f"{cls}:signed-min-excludes", case + "|" + cls, {"expr": show(r), "min": slo, "true_signed_min": sV[0]})
            if si_ok["smin"] and si_ok["smax"] and shi is not None and refsem.sx(shi & mask(w), w) < sV[-1]:
                part.fail(f"{cls}:signed-max-excludes", case + "|" + cls, {"expr": show(r), "max": shi, "true_signed_max": sV[-1]})
        except ClaripyError:
            part.count("solver_declined")
        except Exception as e:  # noqa: BLE001
            part.fail(f"{cls}:raised:{type(e).__name__}", case + "|" + cls + "|signed", {"expr": show(r), "error": str(e)[:160]})
        if lo is not None and (lo & mask(w)) > V[0]:
            part.fail(f"{cls}:min-excludes", case + "|" + cls, {"expr": show(r), "min": lo, "true_min": V[0]})
        if hi is not None and (hi & mask(w)) < V[-1]:
            part.fail(f"{cls}:max-excludes", case + "|" + cls, {"expr": show(r), "max": hi, "true_max": V[-1]})
        evs = {v & mask(w) for v in ev}
        if len(ev) < (1 << w) and not set(V) <= evs:
            part.fail(f"{cls}:eval-excludes", case + "|" + cls, {"expr": show(r), "eval": sorted(evs), "values": V})
        if not all(so) and not si_ok["sol"]:
            part.count("excused_interval_query_c22")
        elif not all(so):
            part.fail(f"{cls}:solution-excludes", case + "|" + cls, {"expr": show(r), "values": V[:4], "answers": so})


def seed_states(space):
    """replace the variables by their annotated versions (called by explore_shard before level 0)"""
    return []


def _shard(item):
    """one Space per interval pair; shards over the pairs"""
    from ..common import Part as P

    w, pairs, depth, full, solver = item
    solver_full = full  # the thorough configurations (full partner alphabets) also get the full set of Bool partners
    part = P()
    for sx_, sy_ in pairs:
        space = exprspace.Space(w)
        x, y = space.bvs
        ax = x.annotate(StridedIntervalAnnotation(*sx_))
        ay = y.annotate(StridedIntervalAnnotation(*sy_))
        space.bvs = [ax, ay]
        six, siy = S.mk(w, *sx_), S.mk(w, *sy_)
        space._c24_gamma = (S.gamma(six), S.gamma(siy))
        space._c24_label = f"x={S.key(six)},y={S.key(siy)}"
        space._c24_spec = [list(sx_), list(sy_)]
        # Boolean partners that are determined / undetermined only through the annotations (for Bool ==, !=, And, Or, If)
        gy = sorted(S.gamma(siy))
        if gy:
            space.extra_bool_partners = [claripy.UGE(ay, gy[0]), ax == ay] if not solver_full else [claripy.UGE(ay, gy[0]), claripy.ULT(ay, gy[0]), claripy.ULE(ay, gy[-1]), ax == ay, claripy.ULT(ax, ay)]
        opts = {"solver": solver}
        level0 = list(space.leaves()) + [claripy.BVV(c, w) for c in space.consts(w)]
        seen = {id(s) for s in level0}
        keep = list(level0)
        frontier = []
        for s in level0:
            for tr in space.transitions(s, full=True):
                r = monitor(space, tr, part, opts)
                if r is not None and id(r) not in seen:
                    seen.add(id(r))
                    keep.append(r)
                    frontier.append(r)
        part.count("states", len(frontier))
        # joined Booleans (Or / And / Boolean If over comparison atoms) under Boolean ==, != : the three-valued logic of
        # the backend must treat every undetermined operand as undetermined, however it was produced
        k1 = claripy.BVV(1 & mask(w), w)
        gy = sorted(space._c24_gamma[1])
        atoms = [claripy.ULT(ax, k1), claripy.ULT(ay, k1), ax == ay, claripy.UGT(ax, k1)]
        if gy:
            atoms += [claripy.UGE(ay, gy[0]), claripy.ULT(ay, gy[0])]
        joined = []
        for p_, q_ in itertools.product(atoms, repeat=2):
            if p_ is q_:
                continue
            joined += [claripy.Or(p_, q_), claripy.And(p_, q_)]
        for p_, q_, r_ in itertools.product(atoms[:4], repeat=3):
            if p_ is not q_ and q_ is not r_:
                try:
                    joined.append(claripy.If(p_, q_, r_))
                except ClaripyError:
                    pass
        pool = atoms + joined[:: max(1, len(joined) // 24)]
        for p_, q_ in itertools.product(pool, repeat=2):
            for nm, e in (("==", p_ == q_), ("!=", p_ != q_)):
                if id(e) in seen:
                    continue
                seen.add(id(e))
                keep.append(e)
                part.count("transitions")
                part.count("vsa_conversions")
                part.count("joined_boolean_cases")
                judge(space, e, part, f"w={w}|{space._c24_label}|booljoin|{show(e)}", "convert:booljoin", {"kind": "e1", "w": w, "si": space._c24_spec, "key": "booljoin"})
        if depth >= 2:
            n2 = 0
            for s in frontier:
                if isinstance(s, claripy.ast.BV) and s.length > space.max_width:
                    continue
                for tr in space.transitions(s, full=full):
                    r = monitor(space, tr, part, {"solver": False})
                    if r is not None and id(r) not in seen:
                        seen.add(id(r))
                        keep.append(r)
                        n2 += 1
            part.count("states", n2)
    return part.dump()


def run(tier: str) -> int:
    rep = Report(
        PID,
        tier,
        "model_checking",
        rule="E1 BFS over expressions whose variables carry strided-interval annotations (every ordered pair of the interval "
        "alphabet, one traversal per pair); every distinct AST converted with backends.vsa.convert: the result's "
        "concretisation must contain the value of the expression under every assignment with x, y inside their intervals; "
        "SolverVSA / SolverHybrid(exact=False) min, max, eval, solution on depth-1 states; failures caused by an interval "
        "transfer function that is locally unsound on its abstract operands are C21's (counted as excused)",
    )
    items = []
    if tier == "quick":
        plan = [(1, "full", 2, False, True), (2, "small", 2, False, True), (3, "small", 1, False, False)]
    else:
        plan = [(1, "full", 2, True, True), (2, "full", 2, False, True), (3, "small", 2, False, True), (3, "full", 1, False, True), (4, "small", 1, False, False)]
    for w, size, depth, full, solver in plan:
        al = si_alphabet(min(w, 3), size) if w <= 3 else [(1, 0, 15), (0, 9, 9), (2, 1, 11), (1, 14, 3), (3, 0, 15), (4, 2, 14)]
        pairs = list(itertools.product(al, al))
        for k in range(0, len(pairs), 2):
            items.append((w, pairs[k : k + 2], depth, full, solver))
    for res in pmap(_shard, items):
        rep.merge(res)
    rep.assumptions = [
        "gamma as in C21 (lb + k*stride while the distance from lb does not exceed (ub - lb) mod 2^w)",
        "soundness of the individual interval transfer functions is C21's property: an expression is excused when one of its plain operator nodes is already locally unsound on the operands it received",
        "division / remainder by a divisor interval that contains 0 is skipped",
    ]
    return rep.finish()


def replay(path: str) -> int:
    data = json.load(open(path))
    bad = 0
    for c in data["cases"]:
        rp = c.get("replay") or {}
        if rp.get("kind") != "e1":
            continue
        res = _shard((rp["w"], [(tuple(rp["si"][0]), tuple(rp["si"][1]))], 2, False, True))
        hit = any(f["case"] == c["case"] for f in res["failures"])
        if hit:
            bad += 1
            print(f"VIOLATION property={PID} replay={path}")
            print("  ", c["case"])
        else:
            print("replay:", c["case"], "holds now")
    return 1 if bad else 0
