"""C22 – strided-interval joins, meets, widening and queries agree with their members.

E3 states as in C21.  Joins/widening must contain both operands' members, meets every common member;
queries (eval, min, max, cardinality, solution) are compared exactly with gamma.
"""

from __future__ import annotations

import json

from claripy.backends.backend_vsa.strided_interval import StridedInterval

from .. import sispace as S
from ..common import Part, Report, pmap
from ..refsem import mask, sx

PID = "C22"
_STATE = {}

JOINS = {
    "union": lambda a, b: a.union(b),
    "lub": lambda a, b: StridedInterval.least_upper_bound(a, b),
    "pseudo_join": lambda a, b: StridedInterval.pseudo_join(a, b),
    "pseudo_join_nosmart": lambda a, b: StridedInterval.pseudo_join(a, b, smart_join=False),
    "widen": lambda a, b: a.widen(b),
}


def _g(si):
    if si._reversed:
        si = si._reverse()
    return S.gamma(si)


def check_pair(part, ka, kb, A, B, gA, gB):
    for name, f in JOINS.items():
        part.count("transitions")
        case = f"{name}|{ka}|{kb}"
        try:
            Rr = f(A, B)
        except Exception as e:
            part.fail(f"{name}:raise:{type(e).__name__}", case, str(e)[:200])
            continue
        if S.key(A) != ka or S.key(B) != kb:
            part.fail(f"{name}:operand-mutated", case, {"A": S.key(A), "B": S.key(B)})
            return False
        if not hasattr(Rr, "is_empty"):
            part.fail(f"{name}:badresult", case, repr(Rr)[:80])
            continue
        miss = (gA | gB) - _g(Rr)
        if miss or Rr.bits != A.bits:
            part.fail(name, case, {"result": S.key(Rr), "missing": sorted(miss)[:6]})
    part.count("transitions")
    case = f"intersection|{ka}|{kb}"
    try:
        Rr = A.intersection(B)
    except Exception as e:
        part.fail(f"intersection:raise:{type(e).__name__}", case, str(e)[:200])
        return True
    if S.key(A) != ka or S.key(B) != kb:
        part.fail("intersection:operand-mutated", case, {"A": S.key(A), "B": S.key(B)})
        return False
    if not hasattr(Rr, "is_empty"):
        # a DSIS / tuple result: take the union of members
        try:
            g = set()
            for x in Rr:
                g |= _g(x)
        except Exception:
            part.fail("intersection:badresult", case, repr(Rr)[:80])
            return True
    else:
        g = _g(Rr)
    miss = (gA & gB) - g
    if miss:
        part.fail("intersection", case, {"result": S.key(Rr) if hasattr(Rr, "is_empty") else repr(Rr), "missing": sorted(miss)[:6]})
    return True


def check_queries(part, ka, A, gA):
    w = A.bits
    m = mask(w)
    n_opts = sorted({0, 1, 2, len(gA), len(gA) + 1, (1 << w) + 1})
    for signed in (False, True):
        for n in n_opts:
            part.count("transitions")
            case = f"eval|{ka}|n={n}|signed={signed}"
            try:
                r = A.eval(n, signed=signed)
            except Exception as e:
                part.fail(f"eval:raise:{type(e).__name__}", case, str(e)[:200])
                continue
            vals = [v & m for v in r]
            ok = set(vals) <= gA and len(set(vals)) == len(vals) and len(vals) <= n and (len(vals) == min(n, len(gA)))
            if not ok:
                part.fail("eval" + (":signed" if signed else ""), case, {"returned": r[:10], "gamma": sorted(gA)[:10]})
        for nm, f, pick in (("min", A.min, min), ("max", A.max, max)):
            part.count("transitions")
            case = f"{nm}|{ka}|signed={signed}"
            try:
                r = f(signed=signed)
            except Exception as e:
                part.fail(f"{nm}:raise:{type(e).__name__}", case, str(e)[:200])
                continue
            if not gA:
                if r is not None:
                    part.fail(nm, case, {"returned": r, "gamma": []})
                continue
            exp = pick(gA, key=(lambda v: sx(v, w)) if signed else (lambda v: v))
            if r is None or (r & m) != exp:
                part.fail(nm + (":signed" if signed else ""), case, {"returned": r, "expected_pattern": exp})
    part.count("transitions")
    try:
        c = A.cardinality
        if c != len(gA):
            part.fail("cardinality", f"cardinality|{ka}", {"returned": c, "members": len(gA)})
    except Exception as e:
        part.fail(f"cardinality:raise:{type(e).__name__}", f"cardinality|{ka}", str(e)[:200])
    for v in range(1 << w):
        part.count("transitions")
        case = f"solution|{ka}|{v}"
        try:
            r = A.solution(v)
        except Exception as e:
            part.fail(f"solution:raise:{type(e).__name__}", case, str(e)[:200])
            continue
        if bool(r) != (v in gA):
            part.fail("solution", case, {"returned": r, "member": v in gA})


def wide_alphabet(w):
    """well-formed intervals at machine widths, bounds / strides on the powers of two and 2^53 (float precision) edges"""
    M = 1 << w
    pts = sorted(v for v in {0, 1, 2, 3, (1 << 53) - 1, 1 << 53, (1 << 53) + 1, M // 2 - 1, M // 2, M // 2 + 1, M - 3, M - 2, M - 1, 0x1234567, 1 + 3 * ((1 << 60) + 1)} if 0 <= v < M)
    out = []
    for lb in pts:
        for ub in pts:
            span = (ub - lb) % M
            if span == 0:
                out.append((0, lb, ub))
                continue
            for st in (1, 2, 3, 5, 1 << 20, (1 << 53) + 1, span):
                if st <= span and span % st == 0:
                    out.append((st, lb, ub))
    return out


def check_wide(part, w, st, lb, ub):
    """queries on an interval too large to enumerate: the member set is known arithmetically"""
    M = 1 << w
    span = (ub - lb) % M
    n = span // st + 1 if st else 1
    ka = f"{w}:{st}[{lb},{ub}]"
    try:
        A = StridedInterval(bits=w, stride=st, lower_bound=lb, upper_bound=ub)
    except Exception as e:  # noqa: BLE001
        part.fail(f"wide:construct:raise:{type(e).__name__}", ka, str(e)[:200])
        return
    if (A.stride, A.lower_bound, A.upper_bound) != (st, lb, ub):
        part.count("wide_normalised_by_constructor")
        return

    def member(v):
        d = (v - lb) % M
        return d <= span and (d % st == 0 if st else d == 0)

    part.count("transitions")
    try:
        c = A.cardinality
        if c != n:
            part.fail("wide:cardinality", f"cardinality|{ka}", {"returned": c, "members": n})
    except Exception as e:  # noqa: BLE001
        part.fail(f"wide:cardinality:raise:{type(e).__name__}", f"cardinality|{ka}", str(e)[:200])
    for v in sorted({lb, ub, (lb + st) % M, (lb + 1) % M, (ub + 1) % M, (lb - 1) % M, 0, M - 1, M // 2, (lb + st * (n // 2)) % M}):
        part.count("transitions")
        case = f"solution|{ka}|{v}"
        try:
            r = A.solution(v)
        except Exception as e:  # noqa: BLE001
            part.fail(f"wide:solution:raise:{type(e).__name__}", case, str(e)[:200])
            continue
        if bool(r) != member(v):
            part.fail("wide:solution", case, {"returned": r, "member": member(v)})
    if lb <= ub:  # not wrapping: the unsigned extremes are the bounds
        for nm, exp in (("min", lb), ("max", ub)):
            part.count("transitions")
            case = f"{nm}|{ka}|signed=False"
            try:
                r = getattr(A, nm)
                r = r(signed=False) if callable(r) else r
            except Exception as e:  # noqa: BLE001
                part.fail(f"wide:{nm}:raise:{type(e).__name__}", case, str(e)[:200])
                continue
            if r != exp:
                part.fail(f"wide:{nm}", case, {"returned": r, "expected": exp})
    for k in (1, 2):
        part.count("transitions")
        case = f"eval|{ka}|n={k}"
        try:
            r = A.eval(k)
        except Exception as e:  # noqa: BLE001
            part.fail(f"wide:eval:raise:{type(e).__name__}", case, str(e)[:200])
            continue
        vals = [v % M for v in r]
        if not all(member(v) for v in vals) or len(set(vals)) != len(vals) or len(vals) != min(k, n):
            part.fail("wide:eval", case, {"returned": r[:4], "cardinality": n})


def _work(item):
    w, kind, chunk = item
    if kind == "wide":
        part = Part()
        for st, lb, ub in chunk:
            check_wide(part, w, st, lb, ub)
        return part.dump()
    allk = _STATE["all"]
    part = Part()
    sis = {k: S.from_key(k) for k in allk}
    gam = {k: S.gamma(sis[k]) for k in allk}
    if kind == "queries":
        for ka in chunk:
            check_queries(part, ka, sis[ka], gam[ka])
    elif kind == "pairs":
        for ka in chunk:
            for kb in allk:
                if not check_pair(part, ka, kb, sis[ka], sis[kb], gam[ka], gam[kb]):
                    sis[ka], sis[kb] = S.from_key(ka), S.from_key(kb)
    elif kind == "triples":
        trip = _STATE["triple_alphabet"]
        for ka in chunk:
            for kb in trip:
                for kc in trip:
                    part.count("transitions")
                    case = f"lub3|{ka}|{kb}|{kc}"
                    try:
                        Rr = StridedInterval.least_upper_bound(sis[ka], sis[kb], sis[kc])
                    except Exception as e:
                        part.fail(f"lub3:raise:{type(e).__name__}", case, str(e)[:200])
                        continue
                    miss = (gam[ka] | gam[kb] | gam[kc]) - _g(Rr)
                    if miss:
                        part.fail("lub3", case, {"result": S.key(Rr), "missing": sorted(miss)[:6]})
    return part.dump()


def run(tier: str) -> int:
    rep = Report(
        PID,
        tier,
        "model_checking",
        rule="E3: every well-formed strided interval of width w (+bottom); every ordered pair for union / "
        "least_upper_bound / pseudo_join / widen (result must contain both member sets) and intersection (every common "
        "member); triples for least_upper_bound; every query (eval n in {0,1,2,|g|,|g|+1,2^w+1} x signedness, min, max, "
        "cardinality, solution(v) for all v) compared exactly with the member set; at widths 32 / 64 a boundary family of "
        "intervals (bounds and strides on the 2^53, 2^(w-1), 2^w edges): cardinality, solution on boundary values, unsigned "
        "min / max of non-wrapping intervals, eval(1..2) against the arithmetically known member set",
    )
    widths = (1, 2, 3) if tier == "quick" else (1, 2, 3, 4)
    nstates = 0
    for w in widths:
        allk = [S.key(s) for s in S.seeds(w)] + [f"{w}:EMPTY"]
        nstates += len(allk)
        _STATE.clear()
        _STATE["all"] = allk
        if w <= 2:
            trip = allk
        elif w == 3:
            trip = allk[:: (3 if tier == "quick" else 1)][:60] if tier == "quick" else allk[::2]
        else:
            trip = allk[::37]
        _STATE["triple_alphabet"] = trip
        items = []
        nch = 32
        for i in range(nch):
            items.append((w, "pairs", allk[i::nch]))
            items.append((w, "triples", allk[i::nch]))
        for i in range(4):
            items.append((w, "queries", allk[i::4]))
        for res in pmap(_work, items):
            rep.merge(res)
        rep.sample({"w": w, "states": len(allk), "triple_partner_alphabet": len(trip), "example": allk[len(allk) // 3]})
    # machine widths: queries on intervals whose member set is known arithmetically (bounds on the 2^53 / 2^(w-1) / 2^w edges)
    for w in (32, 64):
        wa = wide_alphabet(w)
        nstates += len(wa)
        for res in pmap(_work, [(w, "wide", wa[i::16]) for i in range(16)]):
            rep.merge(res)
        rep.sample({"w": w, "wide_states": len(wa), "example": wa[len(wa) // 2]})
    rep.counts["states"] = nstates
    rep.assumptions = ["gamma as in C21; eval completeness: fewer than n values only if that is all of gamma"]
    return rep.finish()


def replay(path: str) -> int:
    data = json.load(open(path))
    bad = 0
    for c in data["cases"]:
        parts = c["case"].split("|")
        p = Part()
        if parts[0] in JOINS or parts[0] == "intersection":
            A, B = S.from_key(parts[1]), S.from_key(parts[2])
            check_pair(p, parts[1], parts[2], A, B, S.gamma(A), S.gamma(B))
        else:
            A = S.from_key(parts[1])
            check_queries(p, parts[1], A, S.gamma(A))
        fs = [f for f in p.failures if f["case"] == c["case"]]
        if fs:
            bad += 1
            print(f"VIOLATION property={PID} replay={path}")
            print("  ", json.dumps(fs[0], default=str)[:400])
        else:
            print("replay:", c["case"], "holds now")
    return 1 if bad else 0
