"""C18 – pickled expressions and solvers round-trip with identical meaning.

Expressions: every E1 state of depth <=2 (w=2,3), annotated leaves, FP and string expressions:
in-process `loads(dumps(e)) is e`; cross-process (child interpreters with PYTHONHASHSEED 1, 2 and
random) equal canonical structure and equal truth table (computed in the child with the same refsem).
Solvers: every state reached by a short history, for every frontend class: pickled, then a battery of
queries in-process and in the child processes, each answer checked with the brute-force oracle.
"""

from __future__ import annotations

import hashlib
import json
import os
import pickle
import subprocess
import sys
import tempfile

import claripy

from .. import exprspace
from .. import histspace as H
from ..common import ROOT, Part, Report, pmap
from ..refsem import DenError, show

PID = "C18"


class UAnno(claripy.Annotation):
    """a user annotation with structural equality"""

    def __init__(self, tag):
        self.tag = tag

    @property
    def eliminatable(self):
        return False

    @property
    def relocatable(self):
        return False

    def __hash__(self):
        return hash(("UAnno", self.tag))

    def __eq__(self, o):
        return isinstance(o, UAnno) and o.tag == self.tag


def expr_pool(tier):
    pool = []
    for w in (2, 3) if tier == "quick" else (1, 2, 3, 4):
        sp = exprspace.Space(w)
        level = list(sp.leaves()) + [claripy.BVV(c, w) for c in sp.consts(w)]
        seen = {id(s) for s in level}
        pool += level
        for d in range(2):
            nxt = []
            for s in level:
                for tr in sp.transitions(s, full=(d == 0 and w <= 3)):
                    try:
                        r = tr.build()
                    except Exception:
                        continue
                    if isinstance(r, claripy.ast.Base) and id(r) not in seen:
                        seen.add(id(r))
                        nxt.append(r)
            pool += nxt
            level = nxt[:: (40 if tier == "quick" else 8)]
    x = claripy.BVS("x8", 8, explicit_name=True)
    from claripy.annotation import RegionAnnotation, StridedIntervalAnnotation

    for lb in (-2, -1, 0, 1, 2**61 - 1, 2**61):
        pool.append(x.annotate(StridedIntervalAnnotation(1, lb, 200)))
    pool.append(x.annotate(RegionAnnotation("global", 0x10)))
    pool.append((x + 1).annotate(UAnno("a")))
    pool.append(claripy.If(x == 3, x.annotate(UAnno("b")), x + 2))
    f = claripy.FPS("f32", claripy.FSORT_FLOAT, explicit_name=True)
    g = claripy.FPS("g64", claripy.FSORT_DOUBLE, explicit_name=True)
    pool += [f + claripy.FPV(1.5, claripy.FSORT_FLOAT), claripy.fpSqrt(g), claripy.fpToIEEEBV(g), claripy.fpLT(f, claripy.FPV(0.0, claripy.FSORT_FLOAT)), claripy.FPV(float("nan"), claripy.FSORT_DOUBLE), claripy.FPV(-0.0, claripy.FSORT_FLOAT), claripy.fpToSBV(claripy.fp.RM.RM_TowardsZero, g, 32)]
    s = claripy.StringS("s", explicit_name=True)
    pool += [claripy.StrConcat(s, claripy.StringV("a\x00b")), claripy.StrLen(s), claripy.StrContains(s, claripy.StringV("é")), claripy.StringV("\U0001f600")]
    return pool


_SCOPES = {}


def expr_fingerprint(e):
    """canonical structure + digest of the truth table (BV/Bool over the standard scopes)"""
    st = show(e)
    dig = None
    try:
        names = sorted(e.variables)
        key = tuple(names)
        w = None
        for n in names:
            for ww in (1, 2, 3, 4):
                if n in (f"x{ww}", f"y{ww}"):
                    w = ww
        if w is not None and all(n in (f"x{w}", f"y{w}", "c") for n in names):
            sp = _SCOPES.get(w)
            if sp is None:
                sp = _SCOPES[w] = exprspace.Space(w)
            dig = hashlib.blake2b(repr(sp.den(e)).encode(), digest_size=8).hexdigest()
        elif not names and isinstance(e, claripy.ast.BV | claripy.ast.Bool):
            sp = _SCOPES.get(1) or _SCOPES.setdefault(1, exprspace.Space(1))
            dig = hashlib.blake2b(repr(sp.den(e)).encode(), digest_size=8).hexdigest()
    except DenError:
        dig = None
    return [st, dig, e.length if hasattr(e, "length") else None, sorted(e.variables), bool(e.symbolic), e.depth]


def run_child(job, hashseed):
    fd, path = tempfile.mkstemp(prefix="c18_", suffix=".pkl")
    with os.fdopen(fd, "wb") as f:
        pickle.dump(job, f, -1)
    env = dict(os.environ)
    env["PYTHONHASHSEED"] = str(hashseed)
    try:
        p = subprocess.run([sys.executable, os.path.join(ROOT, "mc", "pickle_child.py"), path], capture_output=True, env=env, timeout=600, check=False)
    finally:
        os.unlink(path)
    if p.returncode != 0:
        return {"error": p.stderr.decode()[-1500:]}
    return json.loads(p.stdout.decode())


QUERIES = [("sat", "none"), ("eval", "x", 9, "none"), ("min", "x", "s", "none"), ("max", "x", "u", "y<u2"), ("beval", "x,y", 9, "none"), ("sol", "x", 5, "none"), ("add", "x<u5"), ("eval", "x", 9, "none"), ("sat", "x==6")]
# unsigned and signed optimum of one expression back to back (their caches must stay separate after a round trip);
# histories alternate between the two orders and between pair-first / pair-last
TAIL_A = [("max", "x", "u", "none"), ("max", "x", "s", "none"), ("min", "x", "s", "none"), ("min", "x", "u", "none")]
TAIL_B = [("max", "x", "s", "none"), ("max", "x", "u", "none"), ("min", "x", "u", "none"), ("min", "x", "s", "none")]


def _solver_job(args):
    """build solver states, pickle them, check in-process, and ship blobs to children"""
    cls, cfg, hists, seeds = args
    import threading

    part = Part()
    out = {}

    def body():
        uni = H.universe("bv3")
        items = []
        for i, h in enumerate(hists):
            run = H.Run(uni, cls, cfg)
            ok = True
            for ev in h:
                if not H.apply_event(run, ev, check=False):
                    ok = False
                    break
            if not ok:
                part.count("skipped_prefix_already_wrong")
                continue
            case = f"{cls}|" + " ; ".join(H.ev_label(e) for e in h)
            try:
                blob = pickle.dumps(run.s, -1)
            except Exception as e:
                part.fail(f"{cls}:dumps-raised:{type(e).__name__}", case, str(e)[:200])
                continue
            # twin: the same history without pickling; a query the twin also gets wrong is not a pickling problem
            twin = H.Run(uni, cls, cfg)
            for ev in h:
                H.apply_event(twin, ev, check=False)
            twin.failure = None
            twin_bad = None
            # the pair first for half of the histories: after `eval x 9` every model of the 3-bit universe is cached
            battery = [QUERIES + TAIL_A, TAIL_B + QUERIES, TAIL_A + QUERIES, QUERIES + TAIL_B][i % 4]
            for qi, q in enumerate(battery):
                if not H.apply_event(twin, q, check=True):
                    twin_bad = qi
                    break
            queries = battery if twin_bad is None else battery[:twin_bad]
            if twin_bad is not None:
                part.count("queries_dropped_because_unpickled_twin_is_wrong_too")
            items.append({"id": case, "cls": cls, "cfg": cfg, "ref": list(run.ref), "blob": blob, "queries": [list(q) for q in queries]})
            # in-process
            part.count("transitions")
            try:
                s2 = pickle.loads(blob)
            except Exception as e:
                part.fail(f"{cls}:unpickle-raised:{type(e).__name__}", case + " ; in-process", str(e)[:200])
                continue
            run.s = s2
            run.targets = [[s2, run.ref]]
            run.failure = None
            for q in queries:
                if not H.apply_event(run, q, check=True):
                    part.fail(f"{cls}:after-unpickle:{q[0]}:{(run.failure or {}).get('reason')}", case + " ; in-process", run.failure)
                    break
        out["items"] = items

    t = threading.Thread(target=body)
    t.start()
    t.join()
    items = out.get("items", [])
    for hs in seeds:
        if not items:
            break
        res = run_child({"uni": "bv3", "solvers": items, "exprs": None}, hs)
        if "error" in res:
            part.oracle_errors.append(f"child failed (hashseed {hs}): {res['error']}")
            continue
        for r in res["solvers"]:
            part.count("transitions")
            if r.get("failure"):
                f = r["failure"]
                part.fail(f"{cls}:{f['reason']}", r["id"] + f" ; cross-process", f)
            else:
                part.sample({"solver": r["id"], "hashseed": hs, "answers": r.get("log", [])[:3]}, limit=1)
    return part.dump()


TR_PRE = [("add", "x<u5"), ("add", "x==5"), ("add", "x!=0"), ("eval", "x+y", 9, "none"), ("max", "x+y", "u", "none"), ("max", "x", "u", "none")]
TR_POST_ADD = [("add", "x<u2"), ("add", "x==3"), ("add", "y==2")]
TR_POST_Q = [("max", "x+y", "u", "none"), ("eval", "x+y", 9, "none"), ("max", "x", "u", "none"), ("sat", "none")]


def _transparency_job(args):
    """pickling must be invisible: pre ; pickle ; post answers exactly like pre ; post"""
    cls, cfg, pres = args
    import threading

    part = Part()

    def body():
        uni = H.universe("bv3")
        posts = [(q,) for q in TR_POST_Q] + [(a, q) for a in TR_POST_ADD for q in TR_POST_Q]
        for pre in pres:
            for post in posts:
                logs = []
                for with_pickle in (False, True):
                    run = H.Run(uni, cls, cfg)
                    ok = True
                    for ev in pre:
                        if not H.apply_event(run, ev, check=False):
                            ok = False
                            break
                    if not ok:
                        break
                    if with_pickle:
                        try:
                            run.s = pickle.loads(pickle.dumps(run.s, -1))
                        except Exception as e:  # noqa: BLE001
                            part.fail(f"{cls}:pickle-raised:{type(e).__name__}", f"{cls}|" + " ; ".join(H.ev_label(e_) for e_ in pre), str(e)[:160])
                            ok = False
                            break
                    n0 = len(run.log)
                    for ev in post:
                        H.apply_event(run, ev, check=False)
                    logs.append([a for _, a in run.log[n0:]])
                if len(logs) != 2:
                    part.count("skipped_prefix_raises")
                    continue
                part.count("transitions")
                part.count("transparency_pairs")
                if logs[0] != logs[1]:
                    case = f"{cls}|" + " ; ".join(H.ev_label(e) for e in pre) + " ; [pickle] ; " + " ; ".join(H.ev_label(e) for e in post)
                    part.fail(f"{cls}:pickle-changes-answers", case, {"without_pickle": str(logs[0])[:200], "with_pickle": str(logs[1])[:200]})
                else:
                    part.sample({"transparent": f"{cls}|{[H.ev_label(e) for e in pre]}|pickle|{[H.ev_label(e) for e in post]}", "answers": str(logs[0])[:120]}, limit=1)

    t = threading.Thread(target=body)
    t.start()
    t.join()
    return part.dump()


def run(tier: str) -> int:
    rep = Report(
        PID,
        tier,
        "model_checking",
        rule="expressions: all E1 states up to depth 2 (w=2,3) + annotated / FP / string expressions, round-tripped "
        "in-process (identity) and in child interpreters with PYTHONHASHSEED 1, 2, random (canonical structure, metadata "
        "and truth-table digest recomputed in the child); solvers: every state reached by a history of <=2 events (adds, "
        "eval, max, simplify, branch) for every frontend class, pickled and queried (13-query battery incl. a further add and unsigned/signed optimum pairs in both orders) "
        "in-process and in the child interpreters, every answer checked against the brute-force oracle",
    )
    seeds = [1, 2, "random"] if tier == "thorough" else [1, "random"]
    # ---- expressions
    pool = expr_pool(tier)
    n_ident = 0
    for e in pool:
        rep.count("transitions")
        try:
            e2 = pickle.loads(pickle.dumps(e, -1))
        except Exception as ex:
            rep.fail(f"expr:pickle-raised:{type(ex).__name__}", show(e), str(ex)[:200])
            continue
        if e2 is not e:
            rep.fail("expr:in-process-not-identical", show(e), {"got": show(e2)})
        else:
            n_ident += 1
    mine = [expr_fingerprint(e) for e in pool]
    blob = pickle.dumps(pool, -1)
    for hs in seeds:
        res = run_child({"exprs": blob, "solvers": None, "uni": "bv3", "rebuild_tier": tier}, hs)
        if "error" in res:
            rep.oracle_errors.append(f"child failed (hashseed {hs}): {res['error']}")
            continue
        for a, b in zip(mine, res["exprs"]):
            rep.count("transitions")
            if a != b:
                rep.fail("expr:cross-process-differs", a[0], {"parent": a, "child": b, "hashseed": hs})
        # the child also built the whole pool natively: each unpickled expression must be that very object
        for lab, why in res.get("not_identical_to_native", []):
            rep.fail("expr:unpickled-is-not-the-native-object", lab, {"hashseed": hs, "detail": why})
        rep.count("transitions", res.get("native_compared", 0))
        rep.count("unpickled_vs_native_comparisons", res.get("native_compared", 0))
    rep.sample({"expressions": len(pool), "identical_in_process": n_ident, "example": mine[len(mine) // 2]})
    # ---- solvers
    uni = H.universe("bv3")
    adds = [("add", k) for k in ("x!=0", "x<u5", "x+y==5", "x==3", "c", "F", "y==x")]
    qs = [("eval", "x", 9, "none"), ("max", "x", "u", "none"), ("simplify",), ("branch",), ("sat", "none")]
    hists = [()] + [(a,) for a in adds] + [(a, b) for a in adds for b in adds if a != b] + [(a, q) for a in adds for q in qs]
    if tier == "thorough":
        hists += [(a, q, b) for a in adds[:4] for q in qs for b in adds[:4] if a != b] + [(a, b, q) for a in adds[:4] for b in adds[:4] if a != b for q in qs]
    classes = [("Solver", {}), ("SolverCacheless", {}), ("SolverComposite", {}), ("SolverHybrid", {}), ("SolverReplacement", {}), ("SolverVSA", {"approx": True})]
    if tier == "thorough":
        classes += [("Solver", {"track": True}), ("SolverHybrid", {"exact_false": True, "approx": True})]
    items = []
    for cls, cfg in classes:
        hs_ = hists if (tier == "thorough" or cls in ("Solver", "SolverComposite")) else hists[::2]
        for i in range(0, len(hs_), 12):
            items.append((cls, cfg, hs_[i : i + 12], seeds))
    for res in pmap(_solver_job, items):
        rep.merge(res)
    # ---- pickle transparency (differential; also meaningful for the inexact / approximate classes)
    pres = [()] + [(a,) for a in TR_PRE] + [(a, b) for a in TR_PRE for b in TR_PRE if a != b]
    tcls = [("SolverReplacement", {}), ("SolverHybrid", {"exact_false": True, "approx": True}), ("Solver", {}), ("SolverComposite", {})]
    if tier == "thorough":
        tcls += [("SolverHybrid", {}), ("SolverCacheless", {}), ("SolverVSA", {"approx": True}), ("SolverReplacementVSA", {"approx": True})]
    titems = [(cls, cfg, pres[i::8]) for cls, cfg in tcls for i in range(8)]
    for res in pmap(_transparency_job, titems):
        rep.merge(res)
    rep.counts["states"] = len(pool) + len(hists) * len(classes)
    rep.assumptions = ["SolverReplacement's known C13 defects can make its answers wrong before pickling; histories whose prefix is already wrong are skipped"]
    return rep.finish()


def replay(path: str) -> int:
    print("replay: cases are listed in", path, "- re-run `check.py C18`")
    return 0
