"""C16 – unsat cores are unsatisfiable subsets of the tracked constraints.

Every order of every <=3-subset (4 over a sub-alphabet) of a constraint alphabet is added to a
tracking solver (plain and composite), optionally with queries interleaved; then unsat_core().
Oracle: every element is a Bool AST that is one of the constraints added (or one the solver holds
after its own simplification/expansion); the conjunction of the elements has an all-False truth
table; when the constraints are satisfiable the result is empty.
"""

from __future__ import annotations

import itertools
import re
import threading

import claripy

from .. import histspace as H
from ..common import Part, Report, pmap

PID = "C16"

KS = ["x==3", "x==1|x==6", "x+y==5", "y==x", "x<u5", "x==6", "x!=0", "c", "!c", "F", "y>u6"]
SUB4 = ["x+y==5", "y==x", "x<u5", "x==6", "c", "!c"]


def _work(args):
    cls, cfg, variant, seqs = args
    out = {}

    def body():
        part = Part()
        try:
            uni = H.universe("bv3")
            from claripy.annotation import SimplificationAvoidanceAnnotation

            def judge(s, added, M, core, case):
                try:
                    core = list(core)
                except Exception:
                    part.fail(f"{cls}:core-not-iterable", case, repr(core)[:100])
                    return
                if M:
                    if len(core) != 0:
                        part.fail(f"{cls}:core-on-sat", case, [repr(c)[:60] for c in core])
                    return
                bad_type = [c for c in core if not isinstance(c, claripy.ast.Bool)]
                if bad_type:
                    part.fail(f"{cls}:element-not-bool-ast", case, [repr(c)[:80] for c in core])
                    return
                allowed = {c.hash() for c in added}
                pool = list(added)
                if hasattr(s, "constraints"):
                    pool += list(s.constraints)
                if hasattr(s, "_solver_list"):
                    for ch in s._solver_list:
                        pool += list(ch.constraints)
                for c in pool:
                    allowed.add(c.hash())
                    if c.op == "And":
                        allowed |= {a.hash() for a in c.args}
                foreign = [c for c in core if c.hash() not in allowed]
                if foreign:
                    part.fail(f"{cls}:element-not-a-constraint", case, [repr(c)[:80] for c in foreign])
                    return
                if len(core) == 0:
                    part.fail(f"{cls}:empty-core-on-unsat", case, None)
                    return
                try:
                    tabs = [uni.den(c) for c in core]
                except Exception:
                    part.count("core_not_interpretable")
                    return
                if any(all(t[i] for t in tabs) for i in range(uni.N)):
                    part.fail(f"{cls}:core-satisfiable", case, [repr(c)[:60] for c in core])
                else:
                    part.sample({"case": case, "core": [repr(c)[:50] for c in core]}, limit=1)
                    part.count("unsat_cores_checked")

            for seq in seqs:
                part.count("transitions")
                case = f"{cls}|{variant}|" + ",".join(seq)
                added = []
                try:
                    if variant == "twin":
                        # another tracked solver of this thread has registered ANNOTATED twins of the same constraints
                        s0 = H.make_solver(cls, cfg)
                        for k in seq:
                            s0.add(uni.K[k].annotate(SimplificationAvoidanceAnnotation()))
                        s0.satisfiable()
                        s0.unsat_core() if not uni.models(list(seq)) else None
                    s = H.make_solver(cls, cfg)
                    for i, k in enumerate(seq):
                        s.add(uni.K[k])
                        added.append(uni.K[k])
                        if variant == "sat2" and i == 1:
                            s.satisfiable()
                        if variant == "eval1" and i == 0:
                            try:
                                s.eval(uni.E["x"], 2)
                            except claripy.UnsatError:
                                pass
                        if variant == "each":
                            s.satisfiable()
                    core = s.unsat_core()
                except Exception as e:
                    part.fail(f"{cls}:raise:{type(e).__name__}", case, str(e)[:200])
                    continue
                M = uni.models(list(seq))
                judge(s, added, M, core, case)
                if variant == "derived":
                    # solvers derived from this one start with no core of their own
                    try:
                        t = s.blank_copy()
                        t.add(uni.K[seq[0]])
                        judge(t, [uni.K[seq[0]]], uni.models([seq[0]]), t.unsat_core(), case + "|blank_copy+add")
                        for pi, p_ in enumerate(s.split()):
                            cs = list(p_.constraints)
                            try:
                                tabs = [uni.den(c) for c in cs]
                                Mp = tuple(i for i in range(uni.N) if all(t_[i] for t_ in tabs))
                            except Exception:
                                continue
                            judge(p_, cs, Mp, p_.unsat_core(), case + f"|split[{pi}]")
                    except Exception as e:
                        part.fail(f"{cls}:derived:raise:{type(e).__name__}", case, str(e)[:200])
        except BaseException:
            import traceback

            part.oracle_errors.append(traceback.format_exc()[-1200:])
        out.update(part.dump())

    t = threading.Thread(target=body)
    t.start()
    t.join()
    return out


def run(tier: str) -> int:
    rep = Report(
        PID,
        tier,
        "model_checking",
        rule="every order of every <=3-subset of an 11-constraint alphabet (and 4-subsets of a 6-constraint sub-alphabet) "
        "added to Solver(track=True) / SolverComposite(track=True), in variants without queries, with satisfiable() "
        "after the 2nd add, with eval after the 1st add (triggers simplify), with satisfiable() after each add; then "
        "unsat_core(): element types, membership in the added/held constraints, truth table of the conjunction all-False, "
        "empty when satisfiable",
    )
    seqs = []
    maxk = 3
    for n in range(1, maxk + 1):
        seqs += list(itertools.permutations(KS, n))
    seqs += list(itertools.permutations(SUB4, 4))
    if tier == "quick":
        seqs = [q for q in seqs if len(q) <= 2] + [q for q in seqs if len(q) == 3][::3] + [q for q in seqs if len(q) == 4][::6]
    variants = ["plain", "sat2", "eval1", "each", "derived", "twin"]
    items = []
    for cls in ("Solver", "SolverComposite"):
        for v in variants:
            for i in range(0, len(seqs), 40):
                items.append((cls, {"track": True}, v, seqs[i : i + 40]))
    for res in pmap(_work, items):
        rep.merge(res)
    rep.counts["states"] = len(seqs) * 2
    rep.assumptions = ["core elements may be constraints the solver holds after its own simplify()/expansion, or conjuncts of them"]
    return rep.finish()


def replay(path: str) -> int:
    """re-runs the sequences of the recorded cases (class | variant | constraint sequence)"""
    import json

    data = json.load(open(path))
    bad = 0
    for c in data["cases"]:
        parts = c["case"].split("|")
        cls, variant, seq = parts[0], parts[1], tuple(parts[2].split(",")) if parts[2] else ()
        # constraint labels may themselves contain '|' (x==1|x==6): re-join what is not a derived-suffix
        body = "|".join(parts[2:])
        for suffix in ("|blank_copy+add", "|split[0]", "|split[1]", "|split[2]"):
            if body.endswith(suffix):
                body = body[: -len(suffix)]
        seq = tuple(x for x in re.split(r",(?=[a-zA-Z!])", body))
        res = _work((cls, {"track": True}, variant, [seq]))
        hit = [f for f in res.get("failures", []) if f["case"] == c["case"]]
        if hit:
            bad += 1
            print(f"VIOLATION property={PID} replay={path}")
            print("  ", c["case"], str(hit[0]["detail"])[:200])
        else:
            print("replay:", c["case"], "holds now")
    return 1 if bad else 0
