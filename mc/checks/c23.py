"""C23 – discrete strided-interval sets and region value sets are sound abstractions.

States: DSIS = sets of 2..3 strided intervals of width <= 3 from an alphabet; ValueSets = maps from
{global, stack, heap} (<= 2 regions) to strided intervals.  The oracle isolates the *lifting* (what
these two classes add) from the per-interval transfer functions, which C21/C22 decide on their own:
a lifted operation must contain, for every pair of members, everything the interval-level operation
returns for that pair (and, where the interval-level operation is exact or sound, therefore every
concrete result); joins/meets/collapse/queries are compared with the member sets directly.
"""

from __future__ import annotations

import itertools
import json

from claripy.backends.backend_vsa.discrete_strided_interval_set import DiscreteStridedIntervalSet
from claripy.backends.backend_vsa.strided_interval import StridedInterval
from claripy.backends.backend_vsa.valueset import ValueSet

from .. import sispace as S
from ..common import Part, Report, pmap
from ..refsem import mask, sx

PID = "C23"


def si_alphabet(w, tier):
    m = mask(w)
    ks = []
    for v in range(1 << w):
        ks.append(f"{w}:0[{v},{v}]")
    if w >= 2:
        ks += [f"{w}:1[0,1]", f"{w}:1[1,{m - 1}]", f"{w}:1[{m - 1},1]", f"{w}:2[0,{m - 1}]", f"{w}:2[1,{m}]", f"{w}:1[0,{m}]"]
    if w >= 3:
        ks += [f"{w}:1[2,5]", f"{w}:3[1,7]", f"{w}:4[1,5]", f"{w}:1[6,1]", f"{w}:2[6,2]"]
        if tier == "thorough":
            ks += [f"{w}:1[3,4]", f"{w}:3[0,6]", f"{w}:5[7,4]", f"{w}:1[4,7]", f"{w}:2[0,4]"]
    return ks


def mk_dsis(w, keys):
    return DiscreteStridedIntervalSet(bits=w, si_set={S.from_key(k) for k in keys})


def g_any(x) -> frozenset:
    """member set of an SI or a DSIS (union of its members)"""
    if isinstance(x, DiscreteStridedIntervalSet):
        out = set()
        for si in x._si_set:
            out |= g_any(si)
        return frozenset(out)
    if x._reversed:
        x = x._reverse()
    return S.gamma(x)


def dkey(keys):
    return "{" + ";".join(sorted(keys)) + "}"


LIFTED = {
    "and": lambda a, b: a & b,
    "or": lambda a, b: a | b,
    "xor": lambda a, b: a ^ b,
    "add": lambda a, b: a + b,
    "sub": lambda a, b: a - b,
    "udiv": lambda a, b: a // b,
    "mod": lambda a, b: a % b,
    "lshift": lambda a, b: a << b,
    "rshift": lambda a, b: a >> b,
    "concat": lambda a, b: a.concat(b),
}
LIFTED_UN = {"neg": lambda a: -a, "not": lambda a: ~a}


def members_of(x):
    return list(x._si_set) if isinstance(x, DiscreteStridedIntervalSet) else [x]


def check_dsis_pair(part, w, ka, kb, okind):
    """ka: tuple of SI keys (the DSIS); kb: tuple of SI keys (DSIS) or single key (SI) or int"""
    for name, f in LIFTED.items():
        part.count("transitions")
        A = mk_dsis(w, ka)
        if okind == "dsis":
            B = mk_dsis(w, kb)
            kbs = dkey(kb)
        elif okind == "si":
            B = S.from_key(kb)
            kbs = kb
        else:
            B = kb
            kbs = f"int{kb}"
        case = f"{name}|{dkey(ka)}|{kbs}"
        # interval-level results for every member pair (the lifting's specification)
        expect = set()
        skip = False
        for a in members_of(A):
            for b in members_of(B) if not isinstance(B, int) else [B]:
                try:
                    r = f(a, b)
                    expect |= g_any(r)
                except Exception:
                    skip = True  # the interval-level op itself raises: C21's business
        if skip:
            part.count("skipped_member_op_raises")
            continue
        try:
            Rr = f(A, B)
        except Exception as e:
            part.fail(f"dsis.{name}:raise:{type(e).__name__}", case, str(e)[:200])
            continue
        try:
            got = g_any(Rr)
        except Exception as e:
            part.fail(f"dsis.{name}:badresult", case, repr(Rr)[:100])
            continue
        miss = expect - got
        if miss:
            part.fail(f"dsis.{name}", case, {"result": repr(Rr)[:120], "missing": sorted(miss)[:6]})


def check_dsis_single(part, w, ka, tier):
    A = mk_dsis(w, ka)
    gA = g_any(A)
    kd = dkey(ka)
    m = mask(w)
    for name, f in LIFTED_UN.items():
        part.count("transitions")
        expect = set()
        for a in members_of(A):
            try:
                expect |= g_any(f(a))
            except Exception:
                expect = None
                break
        if expect is None:
            continue
        try:
            got = g_any(f(mk_dsis(w, ka)))
        except Exception as e:
            part.fail(f"dsis.{name}:raise:{type(e).__name__}", f"{name}|{kd}", str(e)[:200])
            continue
        if expect - got:
            part.fail(f"dsis.{name}", f"{name}|{kd}", {"missing": sorted(expect - got)[:6]})
    for hi in range(w):
        for lo in range(hi + 1):
            part.count("transitions")
            expect = set()
            try:
                for a in members_of(A):
                    expect |= g_any(a.extract(hi, lo))
                got = g_any(mk_dsis(w, ka).extract(hi, lo))
            except Exception as e:
                part.count("skipped_member_op_raises")
                continue
            if expect - got:
                part.fail("dsis.extract", f"extract{hi}:{lo}|{kd}", {"missing": sorted(expect - got)[:6]})
    for nm, fn in (("zext", lambda x: x.zero_extend(w + 1)), ("sext", lambda x: x.sign_extend(w + 1))):
        part.count("transitions")
        try:
            expect = set()
            for a in members_of(A):
                expect |= g_any(fn(a))
            got = g_any(fn(mk_dsis(w, ka)))
        except Exception:
            part.count("skipped_member_op_raises")
            continue
        if expect - got:
            part.fail(f"dsis.{nm}", f"{nm}|{kd}", {"missing": sorted(expect - got)[:6]})
    # collapse
    part.count("transitions")
    try:
        c = mk_dsis(w, ka).collapse()
        if gA - g_any(c):
            part.fail("dsis.collapse", f"collapse|{kd}", {"result": S.key(c), "missing": sorted(gA - g_any(c))[:6]})
    except Exception as e:
        part.fail(f"dsis.collapse:raise:{type(e).__name__}", f"collapse|{kd}", str(e)[:200])
    # queries
    for n in sorted({0, 1, 2, len(gA), len(gA) + 1, (1 << w) + 1}):
        part.count("transitions")
        case = f"eval|{kd}|n={n}"
        try:
            r = mk_dsis(w, ka).eval(n)
        except Exception as e:
            part.fail(f"dsis.eval:raise:{type(e).__name__}", case, str(e)[:200])
            continue
        vals = [v & m for v in r]
        if not (set(vals) <= gA and len(set(vals)) == len(vals) and len(vals) <= n and len(vals) == min(n, len(gA))):
            part.fail("dsis.eval", case, {"returned": r[:10], "members": sorted(gA)})
    for signed in (False, True):
        for nm, pick in (("min", min), ("max", max)):
            part.count("transitions")
            case = f"{nm}|{kd}|signed={signed}"
            try:
                r = getattr(mk_dsis(w, ka), nm)(signed=signed)
            except Exception as e:
                part.fail(f"dsis.{nm}:raise:{type(e).__name__}", case, str(e)[:200])
                continue
            exp = pick(gA, key=(lambda v: sx(v, w)) if signed else (lambda v: v))
            if r is None or (r & m) != exp:
                part.fail(f"dsis.{nm}", case, {"returned": r, "expected_pattern": exp, "members": sorted(gA)})
    part.count("transitions")
    try:
        c = mk_dsis(w, ka).cardinality
        if c < len(gA):
            part.fail("dsis.cardinality", f"cardinality|{kd}", {"returned": c, "members": len(gA)})
    except Exception as e:
        part.fail(f"dsis.cardinality:raise:{type(e).__name__}", f"cardinality|{kd}", str(e)[:200])


def check_dsis_sets(part, w, ka, kb, okind):
    A = mk_dsis(w, ka)
    B = mk_dsis(w, kb) if okind == "dsis" else S.from_key(kb)
    kbs = dkey(kb) if okind == "dsis" else kb
    gA, gB = g_any(A), g_any(B)
    for name in ("union", "intersection", "widen"):
        part.count("transitions")
        case = f"{name}|{dkey(ka)}|{kbs}"
        A = mk_dsis(w, ka)
        B = mk_dsis(w, kb) if okind == "dsis" else S.from_key(kb)
        try:
            Rr = getattr(A, name)(B)
        except Exception as e:
            part.fail(f"dsis.{name}:raise:{type(e).__name__}", case, str(e)[:200])
            continue
        try:
            got = g_any(Rr)
        except Exception:
            part.fail(f"dsis.{name}:badresult", case, repr(Rr)[:100])
            continue
        if name == "intersection":
            # interval-level meets are C22's business: expected = union of member-wise meets
            expect = set()
            try:
                for a in members_of(A):
                    for b in members_of(B):
                        expect |= g_any(a.intersection(b))
            except Exception:
                continue
            expect &= gA & gB
        elif name == "widen":
            try:
                cb = B.collapse() if okind == "dsis" else B
                expect = set(g_any(mk_dsis(w, ka).collapse().widen(cb)))
            except Exception:
                continue
        else:
            expect = gA | gB
        if expect - got:
            part.fail(f"dsis.{name}", case, {"result": repr(Rr)[:120], "missing": sorted(expect - got)[:6]})
        if g_any(mk_dsis(w, ka)) != gA or g_any(A) != gA:
            part.fail(f"dsis.{name}:operand-mutated", case, None)
    # the same set operations on operands that were queried beforehand, result queried afterwards (collapse, extremes):
    # whatever the objects memoise must not be stale.  Differential against the fresh-operand run, so that what the
    # operation already loses on fresh operands (listed above) is not reported a second time.
    def _prequery(X):
        for q in (lambda v: v.collapse(), lambda v: v.stride, lambda v: v.max, lambda v: v.min, lambda v: v.cardinality, lambda v: v.eval(2), lambda v: (v == v).value):
            try:
                q(X)
            except Exception:  # noqa: BLE001
                pass

    def _observe(Rr):
        obs = {"members": g_any(Rr)}
        if hasattr(Rr, "collapse"):
            obs["collapse"] = g_any(Rr.collapse())
        return obs

    for name in ("union", "intersection"):
        part.count("transitions")
        case = f"{name}-after-queries|{dkey(ka)}|{kbs}"
        try:
            fresh = _observe(getattr(mk_dsis(w, ka), name)(mk_dsis(w, kb) if okind == "dsis" else S.from_key(kb)))
        except Exception:  # noqa: BLE001
            continue
        A = mk_dsis(w, ka)
        B = mk_dsis(w, kb) if okind == "dsis" else S.from_key(kb)
        _prequery(A)
        _prequery(B)
        try:
            R1 = getattr(A, name)(B)
            _prequery(R1)
            queried = _observe(R1)
            # and once more on top of the queried result
            R2 = getattr(R1, name)(B) if hasattr(R1, name) else None
            queried2 = _observe(R2) if R2 is not None else None
            fresh2 = _observe(getattr(getattr(mk_dsis(w, ka), name)(mk_dsis(w, kb) if okind == "dsis" else S.from_key(kb)), name)(mk_dsis(w, kb) if okind == "dsis" else S.from_key(kb))) if R2 is not None else None
        except Exception as e:  # noqa: BLE001
            part.fail(f"dsis.{name}-after-queries:raise:{type(e).__name__}", case, str(e)[:200])
            continue
        for tag, fr, qu in (("", fresh, queried), ("-twice", fresh2, queried2)):
            if fr is None or qu is None:
                continue
            for k in fr:
                truth = (gA | gB) if name == "union" else (gA & gB)  # only values the property obliges the result to keep
                lost = ((fr[k] - qu[k]) & truth) if k in qu else set()
                if lost:
                    part.fail(f"dsis.{name}-after-queries{tag}:{k}", case, {"lost_versus_fresh_operands": sorted(lost)[:6]})
                    break
    # SI.union(DSIS) and SI.union(SI) under _allow_dsis
    # comparisons: every occurring truth value must be admitted
    for nm, conc in (("eq", lambda a, b: a == b), ("ne", lambda a, b: a != b), ("UGT", lambda a, b: a > b), ("ULE", lambda a, b: a <= b), ("ULT", lambda a, b: a < b), ("UGE", lambda a, b: a >= b)):
        part.count("transitions")
        case = f"{nm}|{dkey(ka)}|{kbs}"
        A = mk_dsis(w, ka)
        B = mk_dsis(w, kb) if okind == "dsis" else S.from_key(kb)
        f = {"eq": lambda a, b: a == b, "ne": lambda a, b: a != b}.get(nm) or (lambda a, b, nm=nm: getattr(a, nm)(b))
        try:
            r = f(A, B)
            vals = set(r.value)
        except Exception as e:
            part.fail(f"dsis.{nm}:raise:{type(e).__name__}", case, str(e)[:200])
            continue
        # excuse what the interval-level comparison of the collapsed operands already gets wrong (C21)
        try:
            ca = mk_dsis(w, ka).collapse()
            cb = B.collapse() if okind == "dsis" else B
            ref = set(f(ca, cb).value)
            occ_c = {conc(a, b) for a in g_any(ca) for b in g_any(cb)}
            if not occ_c <= ref:
                part.count("skipped_member_op_unsound")
                continue
        except Exception:
            continue
        occ = {conc(a, b) for a in gA for b in gB}
        if not occ <= vals:
            part.fail(f"dsis.{nm}", case, {"result": sorted(vals), "occurring": sorted(occ)})


# ---------------------------------------------------------------------------------------------
# value sets
# ---------------------------------------------------------------------------------------------

REGIONS = ["global", "stack", "heap"]


def mk_vs(w, spec):
    """spec: tuple of (region, si_key)"""
    vs = ValueSet(bits=w)
    for r, k in spec:
        vs._merge_si(r, 0, S.from_key(k))
    return vs


def vkey(spec):
    return "VS{" + ";".join(f"{r}={k}" for r, k in spec) + "}"


def vs_regions(x):
    return {r: g_any(si) for r, si in x.regions.items()}


VS_OPS = {
    "add": lambda a, b: a + b,
    "radd": lambda a, b: b + a,
    "sub": lambda a, b: a - b,
    "mod": lambda a, b: a % b,
    "and": lambda a, b: a & b,
}
SI_OPS = {"add": lambda a, b: a + b, "radd": lambda a, b: a + b, "sub": lambda a, b: a - b, "mod": lambda a, b: a % b, "and": lambda a, b: a & b}


def check_vs(part, w, spec, other_keys, other_specs):
    kv = vkey(spec)
    m = mask(w)
    base = {r: S.gamma(S.from_key(k)) for r, k in spec}
    # arithmetic with an interval / int operand: per region, must contain the interval-level result
    for kb in other_keys:
        for name, f in VS_OPS.items():
            part.count("transitions")
            case = f"vs.{name}|{kv}|{kb}"
            B = S.from_key(kb)
            expect = {}
            try:
                for r, k in spec:
                    expect[r] = g_any(SI_OPS[name](S.from_key(k), S.from_key(kb)))
            except Exception:
                part.count("skipped_member_op_raises")
                continue
            try:
                Rr = f(mk_vs(w, spec), B)
            except Exception as e:
                part.fail(f"vs.{name}:raise:{type(e).__name__}", case, str(e)[:200])
                continue
            if isinstance(Rr, ValueSet):
                got = vs_regions(Rr)
                for r in expect:
                    if expect[r] - got.get(r, frozenset()):
                        part.fail(f"vs.{name}", case, {"region": r, "missing": sorted(expect[r] - got.get(r, frozenset()))[:6]})
                        break
            elif hasattr(Rr, "is_empty"):
                # the result degraded to a plain interval: it must contain every region's result
                got = g_any(Rr)
                allexp = set().union(*expect.values()) if expect else set()
                if allexp - got:
                    part.fail(f"vs.{name}", case, {"result": S.key(Rr), "missing": sorted(allexp - got)[:6]})
            else:
                part.fail(f"vs.{name}:badresult", case, repr(Rr)[:80])
    # queries
    allm = set().union(*base.values()) if base else set()
    for n in sorted({0, 1, 2, len(allm) + 1, (1 << w) + 1}):
        part.count("transitions")
        case = f"vs.eval|{kv}|n={n}"
        try:
            r = mk_vs(w, spec).eval(n)
        except Exception as e:
            part.fail(f"vs.eval:raise:{type(e).__name__}", case, str(e)[:200])
            continue
        vals = [v & m for v in r]
        total = sum(len(v) for v in base.values())
        if not (set(vals) <= allm and len(vals) <= n and (len(vals) >= min(n, len(allm)) or set(vals) == allm)):
            part.fail("vs.eval", case, {"returned": r[:10], "members": sorted(allm)})
    if len(spec) == 1:
        g1 = next(iter(base.values()))
        for nm, pick in (("min", min), ("max", max)):
            part.count("transitions")
            try:
                r = getattr(mk_vs(w, spec), nm)()
                if r is None or (r & m) != pick(g1):
                    part.fail(f"vs.{nm}", f"vs.{nm}|{kv}", {"returned": r, "expected": pick(g1)})
            except Exception as e:
                part.fail(f"vs.{nm}:raise:{type(e).__name__}", f"vs.{nm}|{kv}", str(e)[:200])
    part.count("transitions")
    try:
        c = mk_vs(w, spec).cardinality
        if c < sum(len(v) for v in base.values()):
            part.fail("vs.cardinality", f"vs.cardinality|{kv}", {"returned": c})
    except Exception as e:
        part.fail(f"vs.cardinality:raise:{type(e).__name__}", f"vs.cardinality|{kv}", str(e)[:200])
    # set operations and comparisons with other value sets
    for ospec in other_specs:
        ko = vkey(ospec)
        obase = {r: S.gamma(S.from_key(k)) for r, k in ospec}
        for name in ("union", "widen", "intersection"):
            part.count("transitions")
            case = f"vs.{name}|{kv}|{ko}"
            try:
                Rr = getattr(mk_vs(w, spec), name)(mk_vs(w, ospec))
            except Exception as e:
                part.fail(f"vs.{name}:raise:{type(e).__name__}", case, str(e)[:200])
                continue
            got = vs_regions(Rr)
            bad = None
            for r in set(base) | set(obase):
                a, b = base.get(r, frozenset()), obase.get(r, frozenset())
                try:
                    if name == "intersection":
                        if r in base and r in obase:
                            exp = g_any(S.from_key(dict(spec)[r]).intersection(S.from_key(dict(ospec)[r]))) & a & b
                        else:
                            exp = frozenset()
                    elif name == "widen" and r in base and r in obase:
                        exp = g_any(S.from_key(dict(spec)[r]).widen(S.from_key(dict(ospec)[r])))
                    else:
                        exp = a | b
                except Exception:
                    continue
                if exp - got.get(r, frozenset()):
                    bad = {"region": r, "missing": sorted(exp - got.get(r, frozenset()))[:6]}
                    break
            if bad:
                part.fail(f"vs.{name}", case, bad)
        # pointer equality: (region, offset) pairs
        part.count("transitions")
        case = f"vs.eq|{kv}|{ko}"
        try:
            vals = set((mk_vs(w, spec) == mk_vs(w, ospec)).value)
            nvals = set((mk_vs(w, spec) != mk_vs(w, ospec)).value)
        except Exception as e:
            part.fail(f"vs.eq:raise:{type(e).__name__}", case, str(e)[:200])
            continue
        pa = {(r, o) for r, s_ in base.items() for o in s_}
        pb = {(r, o) for r, s_ in obase.items() for o in s_}
        occ = {x == y for x in pa for y in pb}
        # excuse interval-level eq failures (C21)
        excused = False
        for r in set(base) & set(obase):
            try:
                rv = set((S.from_key(dict(spec)[r]) == S.from_key(dict(ospec)[r])).value)
                if not {x == y for x in base[r] for y in obase[r]} <= rv:
                    excused = True
            except Exception:
                excused = True
        if excused:
            part.count("skipped_member_op_unsound")
            continue
        if not occ <= vals:
            part.fail("vs.eq", case, {"result": sorted(vals), "occurring": sorted(occ)})
        if not {not x for x in occ} <= nvals:
            part.fail("vs.ne", case, {"result": sorted(nvals), "occurring": sorted({not x for x in occ})})
        # VS - VS over identical region sets
        if set(base) == set(obase):
            part.count("transitions")
            case = f"vs.subvs|{kv}|{ko}"
            try:
                exp = set()
                for r in base:
                    exp |= g_any(S.from_key(dict(spec)[r]) - S.from_key(dict(ospec)[r]))
            except Exception:
                continue
            try:
                Rr = mk_vs(w, spec) - mk_vs(w, ospec)
                if exp - g_any(Rr):
                    part.fail("vs.subvs", case, {"result": S.key(Rr), "missing": sorted(exp - g_any(Rr))[:6]})
            except Exception as e:
                part.fail(f"vs.subvs:raise:{type(e).__name__}", case, str(e)[:200])


# ---------------------------------------------------------------------------------------------


def _work(item):
    kind, w, tier, chunk = item
    part = Part()
    alpha = si_alphabet(w, tier)
    sets2 = [tuple(c) for c in itertools.combinations(alpha, 2)]
    sets3 = [tuple(c) for c in itertools.combinations(alpha[:: 2 if tier == "quick" else 1], 3)][:: 7 if tier == "quick" else 2]
    dsets = sets2 + sets3
    partner_sets = dsets[:: max(1, len(dsets) // (24 if tier == "quick" else 60))]
    if kind == "dsis":
        for i in chunk:
            ka = dsets[i]
            check_dsis_single(part, w, ka, tier)
            for kb in alpha:
                check_dsis_pair(part, w, ka, kb, "si")
                check_dsis_sets(part, w, ka, kb, "si")
            for v in (0, 1, mask(w)):
                check_dsis_pair(part, w, ka, v, "int")
            for kb in partner_sets:
                check_dsis_pair(part, w, ka, kb, "dsis")
                check_dsis_sets(part, w, ka, kb, "dsis")
    else:
        specs = []
        for r in REGIONS:
            for k in alpha:
                specs.append(((r, k),))
        a2 = alpha[:: 2 if tier == "quick" else 1]
        for r1, r2 in (("global", "stack"), ("stack", "heap")):
            for k1 in a2:
                for k2 in a2:
                    specs.append(((r1, k1), (r2, k2)))
        others = specs[:: max(1, len(specs) // (30 if tier == "quick" else 80))]
        for i in chunk:
            if i < len(specs):
                check_vs(part, w, specs[i], alpha, others)
    part.note("sizes", f"w={w} alphabet={len(alpha)} dsis={len(dsets)} partner_dsis={len(partner_sets)}")
    return part.dump()


def run(tier: str) -> int:
    rep = Report(
        PID,
        tier,
        "model_checking",
        rule="E3 lifted: DSIS = every 2-subset (and a sub-family of 3-subsets) of an SI alphabet (all integers + "
        "plain/strided/wrapping intervals) at w<=3, against every SI of the alphabet, ints and a family of DSIS partners; "
        "value sets = every 1-region and a family of 2-region maps over {global,stack,heap}; every lifted operation must "
        "contain the interval-level result of every member pair (per region for value sets); union/intersection/collapse/"
        "eval/min/max/cardinality/eq compared with member sets",
    )
    widths = (2, 3) if tier == "quick" else (1, 2, 3)
    items = []
    nstates = 0
    for w in widths:
        alpha = si_alphabet(w, tier)
        n2 = len(list(itertools.combinations(alpha, 2)))
        n3 = len([c for c in itertools.combinations(alpha[:: 2 if tier == "quick" else 1], 3)][:: 7 if tier == "quick" else 2])
        nd = n2 + n3
        a2 = alpha[:: 2 if tier == "quick" else 1]
        nv = 3 * len(alpha) + 2 * len(a2) ** 2
        nstates += nd + nv
        nch = 48
        for i in range(nch):
            items.append(("dsis", w, tier, list(range(i, nd, nch))))
            items.append(("vs", w, tier, list(range(i, nv, nch))))
        rep.sample({"w": w, "si_alphabet": len(alpha), "dsis_states": nd, "valueset_states": nv})
    for res in pmap(_work, items):
        rep.merge(res)
    rep.counts["states"] = nstates
    rep.assumptions = [
        "interval-level transfer functions are C21/C22's business: a lifted result is compared with the union of the "
        "interval-level results of all member pairs; cases where the interval-level op itself raises are skipped and counted",
        "cardinality may over-approximate (documented)",
    ]
    return rep.finish()


def replay(path: str) -> int:
    print("replay: re-run `check.py C23`; cases are listed in", path)
    return 0
