"""C17 – a solver stays correct after a backend timeout / interrupt (fault enumeration on E4).

For every prefix history and every operation, the number n of solver-check calls the operation makes
is measured; then for every k < n and every fault kind the k-th check is made to fail (before the
check: nothing ran; after the check: Z3 did run and its result is discarded; reason timeout ->
ClaripySolverInterruptError, reason unknown -> ClaripyZ3Error).  Oracle: the faulted operation raises a
ClaripyError subclass and returns nothing; afterwards a battery of queries on the same solver object
(in two orders) and on a fresh branch of it must all satisfy C11's oracle.
The seam is the module global `claripy.backends.backend_z3.z3_solver_sat` (every caller picks it up).
"""

from __future__ import annotations

import json
import threading

import claripy
import claripy.backends.backend_z3 as bz3
from claripy.errors import ClaripyError, ClaripySolverInterruptError, ClaripyZ3Error

from .. import histspace as H
from ..common import Part, Report, pmap

PID = "C17"

_ORIG = bz3.z3_solver_sat


class Injector:
    def __init__(self):
        self.armed = False
        self.count = 0
        self.k = None
        self.kind = None
        self.fired = False

    def __call__(self, solver, extra_constraints, occasion):
        if not self.armed:
            return _ORIG(solver, extra_constraints, occasion)
        i = self.count
        self.count += 1
        if self.k is not None and i == self.k and not self.fired:
            self.fired = True
            where, reason = self.kind
            if where == "after":
                _ORIG(solver, extra_constraints, occasion)  # Z3 runs, the answer is lost
            if reason == "timeout":
                raise ClaripySolverInterruptError("timeout")
            raise ClaripyZ3Error("solver unknown: (incomplete quantifiers)")
        return _ORIG(solver, extra_constraints, occasion)


INJ = Injector()

KINDS = [("before", "timeout"), ("after", "timeout"), ("after", "unknown")]


def follow_ups(uni):
    return [
        ("sat", "none"),
        ("eval", "x", 9, "none"),
        ("beval", "x,y", 9, "y<u2"),
        ("min", "x", "u", "none"),
        ("max", "x", "s", "none"),
        ("eval", "x+y", 9, "none"),
        ("sol", "x", 5, "none"),
        ("sat", "x==6"),
        ("max", "x", "u", "y<u2"),
    ]


def _one(uni_name, cls, cfg, prefix, op, k, kind, mode):
    """returns dict(n_calls, failure or None)"""
    out = {}

    def body():
        try:
            bz3.z3_solver_sat = INJ
            uni = H.universe(uni_name)
            if cfg.get("reuse") is not None:
                claripy.backends.z3.reuse_z3_solver = bool(cfg.get("reuse"))
            run = H.Run(uni, cls, cfg)
            INJ.armed = False
            for ev in prefix:
                if not H.apply_event(run, ev, check=False):
                    out["prefix_failed"] = True
                    return
            other = None
            if mode in ("sibling", "parent"):
                # a branch taken BEFORE the fault: the fault hits one of the two, the follow-ups go to the other
                other = run.s.branch()
                if mode == "parent":
                    run.s, other = other, run.s
            # the operation under fault
            INJ.armed = True
            INJ.count = 0
            INJ.k = k
            INJ.kind = kind
            INJ.fired = False
            s = run.s
            raised = None
            try:
                ok = H.apply_event(run, op, check=(k is None))
            finally:
                INJ.armed = False
            out["n_calls"] = INJ.count
            last = run.log[-1][1] if run.log else None
            if k is None:
                if not ok:
                    out["prefix_failed"] = True
                return
            if not INJ.fired:
                out["not_reached"] = True
                return
            if not (last and last[0] == "EXC" and last[1] in ("ClaripySolverInterruptError", "ClaripyZ3Error", "ClaripyFrontendError")):
                # the operation swallowed the fault
                exc_ok = False
                if last and last[0] == "EXC":
                    try:
                        exc_ok = issubclass(getattr(claripy.errors, last[1], object), ClaripyError)
                    except Exception:
                        exc_ok = False
                if not exc_ok:
                    out["failure"] = dict(reason="fault-not-raised", answer=last)
                    return
            run.failure = None
            if other is not None:
                run.s = other
            # afterwards: everything must still be right
            fu = follow_ups(uni)
            if mode == "rev":
                fu = fu[::-1]
            if mode == "branch":
                if not H.apply_event(run, ("branch",), check=True):
                    out["failure"] = dict(reason="after-fault:branch", detail=run.failure)
                    return
            for q in fu:
                if not H.apply_event(run, q, check=True):
                    out["failure"] = dict(reason="after-fault:" + q[0] + ":" + str((run.failure or {}).get("reason")), query=H.ev_label(q), detail=run.failure)
                    return
        except BaseException:
            import traceback

            out["harness_error"] = traceback.format_exc()[-1200:]
        finally:
            bz3.z3_solver_sat = _ORIG

    t = threading.Thread(target=body)
    t.start()
    t.join()
    return out


def _work(args):
    uni_name, cls, cfg, tag, pairs = args
    part = Part()
    cfgs = cls + (f"[{tag}]" if tag else "")
    for prefix, op in pairs:
        base = _one(uni_name, cls, cfg, prefix, op, None, None, "fwd")
        part.count("transitions")
        if base.get("harness_error"):
            part.oracle_errors.append(base["harness_error"])
            continue
        if base.get("prefix_failed"):
            part.count("skipped_prefix_already_wrong")
            continue
        n = base.get("n_calls", 0)
        part.note("checks_per_operation", f"{op[0]}:{n}")
        for k in range(n):
            for kind in KINDS:
                for mode in ("fwd", "rev", "branch", "sibling", "parent"):
                    o = _one(uni_name, cls, cfg, prefix, op, k, kind, mode)
                    part.count("transitions")
                    part.count("faulted_executions")
                    if o.get("harness_error"):
                        part.oracle_errors.append(o["harness_error"])
                        continue
                    if o.get("not_reached") or o.get("prefix_failed"):
                        part.count("fault_not_reached")
                        continue
                    f = o.get("failure")
                    if f:
                        case = f"{cfgs}|" + " ; ".join(H.ev_label(e) for e in prefix) + f" ; FAULT[{k},{kind[0]},{kind[1]}]@" + H.ev_label(op) + f" ; {mode}"
                        sig = f"{cfgs}:{op[0]}:{f['reason']}"
                        part.fail(sig, case, f, {"uni": uni_name, "cls": cls, "cfg": cfg, "prefix": [list(e) for e in prefix], "op": list(op), "k": k, "kind": list(kind), "mode": mode})
                    else:
                        part.sample({"cls": cfgs, "prefix": [H.ev_label(e) for e in prefix], "faulted_op": H.ev_label(op), "k": k, "kind": kind, "mode": mode}, limit=1)
    return part.dump()


def run(tier: str) -> int:
    rep = Report(
        PID,
        tier,
        "fault_enumeration",
        rule="for every prefix history (<=2 events; thorough 3) x every operation x every index k of a z3_solver_sat call "
        "inside it x {fail before the check, fail after the check} x {timeout, unknown} x {follow-up queries forward, "
        "reversed, on a fresh branch, on a branch taken before the fault (fault in either of the two)}: the faulted call must raise a ClaripyError and every later answer must satisfy the "
        "brute-force oracle; a case is non-trivial when the fault position was actually reached",
    )
    uni = H.universe("bv3")
    adds = [("add", k) for k in ("x!=0", "x<u5", "x+y==5", "x==1|x==6")]
    qs = [("eval", "x", 9, "none"), ("sat", "none"), ("max", "x", "u", "none")]
    ops = [
        ("sat", "none"),
        ("sat", "x==6"),
        ("eval", "x", 1, "none"),
        ("eval", "x", 9, "none"),
        ("eval", "x", 2, "y<u2"),
        ("beval", "x,y", 9, "none"),
        ("min", "x", "u", "none"),
        ("max", "x", "s", "none"),
        ("max", "x+y", "u", "y<u2"),
        ("sol", "x", 5, "none"),
    ]
    prefixes = [()] + [(a,) for a in adds] + [(a, b) for a in adds for b in adds if a != b][::2] + [(a, q) for a in adds[:3] for q in qs]
    unsat_prefixes = [(("add", "x+y==5"), ("add", "y==x")), (("add", "y==x"), ("add", "x+y==5")), (("add", "x+y==5"), ("add", "y==x"), ("add", "x!=0"))]
    if tier == "thorough":
        adds = adds + [("add", "y==x")]
        prefixes = [()] + [(a,) for a in adds] + [(a, b) for a in adds for b in adds if a != b] + [(a, q) for a in adds for q in qs] + [(a, q, b) for a in adds[:3] for q in qs for b in adds[:3] if a != b]
    plans = [("Solver", {}, ""), ("SolverCacheless", {}, ""), ("SolverComposite", {}, ""), ("SolverHybrid", {}, "")]
    if tier == "quick":
        ops_q = [o for o in ops if o not in {("sat", "x==6"), ("eval", "x", 1, "none"), ("max", "x+y", "u", "y<u2")}]
        plans = [("Solver", {}, "", prefixes + unsat_prefixes, ops), ("SolverCacheless", {}, "", prefixes + unsat_prefixes, ops_q), ("SolverComposite", {}, "", prefixes[::2] + unsat_prefixes, ops_q), ("SolverHybrid", {}, "", prefixes[::3] + unsat_prefixes[:1], ops_q[::2])]
    else:
        prefixes = prefixes + unsat_prefixes
        plans = [(c, g, t, prefixes, ops) for c, g, t in plans] + [("Solver", {"reuse": True}, "reuse", prefixes, ops), ("SolverCacheless", {"reuse": True}, "reuse", prefixes, ops)]
    items = []
    npairs = 0
    for cls, cfg, tag, pf, op_list in plans:
        pairs = [(p, o) for p in pf for o in op_list]
        npairs += len(pairs)
        for i in range(0, len(pairs), 4):
            items.append(("bv3", cls, cfg, tag, pairs[i : i + 4]))
    for res in pmap(_work, items):
        rep.merge(res)
    rep.counts["states"] = npairs
    rep.counts["evaluations"] = rep.counts.get("transitions", 0)
    rep.counts["distinct_nontrivial"] = rep.counts.get("faulted_executions", 0) - rep.counts.get("fault_not_reached", 0)
    rep.assumptions = ["faults are injected at the z3_solver_sat seam (every solver check of BackendZ3 goes through it)"]
    return rep.finish()


def replay(path: str) -> int:
    data = json.load(open(path))
    bad = 0
    for c in data["cases"]:
        rp = c["replay"]
        o = _one(rp["uni"], rp["cls"], rp["cfg"], tuple(tuple(e) for e in rp["prefix"]), tuple(rp["op"]), rp["k"], tuple(rp["kind"]), rp["mode"])
        if o.get("failure"):
            bad += 1
            print(f"VIOLATION property={PID} replay={path}")
            print("  ", c["case"], json.dumps(o["failure"], default=str)[:300])
        else:
            print("replay:", c["case"], "holds now")
    return 1 if bad else 0
