"""C02 – floating point follows IEEE-754 in every rounding mode.

E2 exploration over the boundary alphabet of both sorts (fp_alphabet: ±0, subnormals, ties, powers of
two around the integer limits, ±max, ±inf, NaN ...).  Every operation x rounding mode x operand tuple
is run twice on the real code:
  folded – on concrete FPV leaves (claripy's eager concrete backend), and
  solved – on FPS variables: the returned AST is converted by backends.z3, the variables are replaced
           by numerals built directly from the bit patterns, and the ground term is evaluated by
           z3.simplify (no check()).
Oracle: mc.fpref (exact rationals, one explicit rounding).  Self-test at set-up: fpref == hardware
for RNE and == Z3 ground evaluation for all five modes on the small alphabet (a mismatch is an oracle
error, exit 2).  Unspecified results (NaN payload, to-integer of NaN / inf / out-of-range) are skipped.
Thorough adds closure depth 2: results of depth-1 arithmetic become operands.
"""

from __future__ import annotations

import itertools
import json
import math

import claripy
import z3

from .. import fpref as F
from .. import valspace as V
from ..common import Part, Report, pmap

PID = "C02"

ZRM = None


def _zrm(ctx):
    return {"RNE": z3.RNE(ctx), "RNA": z3.RNA(ctx), "RTZ": z3.RTZ(ctx), "RTP": z3.RTP(ctx), "RTN": z3.RTN(ctx)}


def _zsort(S, ctx):
    return z3.Float32(ctx) if S is F.FLOAT else z3.Float64(ctx)


def znum(bits, S, ctx):
    return z3.fpBVToFP(z3.BitVecVal(bits, S.width, ctx), _zsort(S, ctx))


def zvalue(term, S):
    """ground value of a z3 term: FP -> pattern / NAN, BV -> int, Bool -> bool"""
    r = z3.simplify(term)
    if z3.is_fp(r):
        if z3.is_fprm(r):
            raise ValueError("rm")
        try:
            if r.isNaN():
                return F.NAN
        except AttributeError:
            pass
        bv = z3.simplify(z3.fpToIEEEBV(r))
        if not z3.is_bv_value(bv):
            raise ValueError(f"not ground: {r}")
        return bv.as_long()
    if z3.is_bv_value(r):
        return r.as_long()
    if z3.is_true(r):
        return True
    if z3.is_false(r):
        return False
    raise ValueError(f"not ground: {r}")


# ---------------------------------------------------------------------------------------------
# self-test of the reference
# ---------------------------------------------------------------------------------------------


def selftest(rep):
    import struct

    def f32bits(h):
        try:
            return struct.unpack("<I", struct.pack("<f", h))[0]
        except OverflowError:
            return F.inf(1 if h < 0 else 0, F.FLOAT)

    n = 0
    for S in (F.FLOAT, F.DOUBLE):
        A = V.fp_alphabet(S, "small")
        for a, b in itertools.product(A, A):
            fa, fb = F.pyfloat_of_bits(a, S), F.pyfloat_of_bits(b, S)
            for name, ref, hw in (("add", F.add, lambda x, y: x + y), ("sub", F.sub, lambda x, y: x - y), ("mul", F.mul, lambda x, y: x * y)):
                h = hw(fa, fb)
                hb = F.bits_of_pyfloat(h, S) if S is F.DOUBLE else f32bits(h)
                n += 1
                if not F.same(ref(a, b, S, "RNE"), hb, S):
                    rep.oracle_errors.append(f"fpref.{name} != hardware on {F.show(a, S)}, {F.show(b, S)}")
        ctx = z3.main_ctx()
        zr = _zrm(ctx)
        for rm in F.RMS:
            for a, b in itertools.product(A, A):
                for name, ref, zf in (("add", F.add, z3.fpAdd), ("mul", F.mul, z3.fpMul), ("div", F.div, z3.fpDiv)):
                    n += 1
                    if not F.same(ref(a, b, S, rm), zvalue(zf(zr[rm], znum(a, S, ctx), znum(b, S, ctx)), S), S):
                        rep.oracle_errors.append(f"fpref.{name} != z3 ground evaluation on {rm} {F.show(a, S)}, {F.show(b, S)}")
            for a in A:
                n += 1
                if not F.same(F.sqrt(a, S, rm), zvalue(z3.fpSqrt(zr[rm], znum(a, S, ctx)), S), S):
                    rep.oracle_errors.append(f"fpref.sqrt != z3 on {rm} {F.show(a, S)}")
                T = F.DOUBLE if S is F.FLOAT else F.FLOAT
                if not F.same(F.convert(a, S, T, rm), zvalue(z3.fpFPToFP(zr[rm], znum(a, S, ctx), _zsort(T, ctx)), T), T):
                    rep.oracle_errors.append(f"fpref.convert != z3 on {rm} {F.show(a, S)}")
                for size in (8, 32, 64):
                    e = F.to_sbv(a, S, size, rm)
                    if e is not None:
                        g = zvalue(z3.fpToSBV(zr[rm], znum(a, S, ctx), z3.BitVecSort(size, ctx)), S)
                        if g != e:
                            rep.oracle_errors.append(f"fpref.to_sbv != z3 on {rm} {F.show(a, S)} size {size}: {e} vs {g}")
                    e = F.to_ubv(a, S, size, rm)
                    if e is not None:
                        g = zvalue(z3.fpToUBV(zr[rm], znum(a, S, ctx), z3.BitVecSort(size, ctx)), S)
                        if g != e:
                            rep.oracle_errors.append(f"fpref.to_ubv != z3 on {rm} {F.show(a, S)} size {size}: {e} vs {g}")
                    n += 2
    rep.count("selftest_comparisons", n)


# ---------------------------------------------------------------------------------------------
# the operations: name -> (arity kinds, claripy builder, reference)
# ---------------------------------------------------------------------------------------------


def _cmp_ops():
    return {
        "fpEQ": (claripy.fpEQ, F.eq),
        "fpNEQ": (claripy.fpNEQ, lambda a, b, S: not F.eq(a, b, S)),
        "fpLT": (claripy.fpLT, F.lt),
        "fpLEQ": (claripy.fpLEQ, F.leq),
        "fpGT": (claripy.fpGT, F.gt),
        "fpGEQ": (claripy.fpGEQ, F.geq),
    }


def _arith_ops():
    return {"fpAdd": (claripy.fpAdd, F.add), "fpSub": (claripy.fpSub, F.sub), "fpMul": (claripy.fpMul, F.mul), "fpDiv": (claripy.fpDiv, F.div)}


class Ctx:
    """per-worker context: symbolic variables, their z3 constants, the claripy z3 context"""

    def __init__(self, S):
        self.S = S
        self.cs = V.CL_SORT[S.name]
        self.a = claripy.FPS(f"fa_{S.name}", self.cs, explicit_name=True)
        self.b = claripy.FPS(f"fb_{S.name}", self.cs, explicit_name=True)
        self.za = claripy.backends.z3.convert(self.a)
        self.zb = claripy.backends.z3.convert(self.b)
        self.ctx = self.za.ctx
        self.bv = {}
        self.term_cache = {}

    def bvvar(self, w):
        if w not in self.bv:
            v = claripy.BVS(f"fbv{w}", w, explicit_name=True)
            self.bv[w] = (v, claripy.backends.z3.convert(v))
        return self.bv[w]

    def solved(self, key, build_ast, subs):
        """ground value of the z3 translation of build_ast() with variables substituted"""
        t = self.term_cache.get(key)
        if t is None:
            ast = build_ast()
            t = claripy.backends.z3.convert(ast)
            self.term_cache[key] = t
        return zvalue(z3.substitute(t, *subs), self.S)


def folded_value(ast, S):
    """value of a folded (concrete) claripy result: pattern / NAN / int / bool"""
    if ast.op == "FPV":
        v = ast.args[0]
        if v != v:
            return F.NAN
        try:
            b = F.bits_of_pyfloat(v, S)
        except OverflowError:
            return ("not-a-value-of-the-sort", repr(v))
        if S is F.FLOAT and F.pyfloat_of_bits(b, S) != v:
            return ("not-a-value-of-the-sort", repr(v))  # a FLOAT leaf holding a double that is not a single-precision value
        return b
    if ast.op == "BVV":
        return ast.args[0]
    if ast.op == "BoolV":
        return bool(ast.args[0])
    raise ValueError(f"not folded: {ast.op}")


def _cmp(part, sig, case, exp, got, S, detail):
    """compare expected with observed; S = sort of the result (None for int/bool results)"""
    if exp is None:
        part.count("unspecified_skipped")
        return True
    if S is not None:
        ok = F.same(exp, got, S)
    else:
        ok = exp == got
    if not ok:
        d = dict(detail)
        d["expected"] = F.show(exp, S) if S is not None else exp
        d["got"] = F.show(got, S) if S is not None and (got == F.NAN or (isinstance(got, int) and not isinstance(got, bool))) else str(got)
        part.fail(sig, case, d, {"kind": "fp", "case": case})
    return ok


def _job(item):
    sname, rm, size, mode = item
    S = F.FLOAT if sname == "FLOAT" else F.DOUBLE
    T = F.DOUBLE if S is F.FLOAT else F.FLOAT
    part = Part()
    cx = Ctx(S)
    crm = V.CL_RM[rm]
    A = V.fp_alphabet(S, size)
    if mode == "closure":
        # depth 2: results of depth-1 arithmetic over the small alphabet (all modes) become operands
        small = V.fp_alphabet(S, "small")
        new = set()
        for a, b in itertools.product(small, small):
            for f in (F.add, F.mul, F.div):
                r = f(a, b, S, rm)
                if r != F.NAN:
                    new.add(r)
        A2 = sorted(new - set(A))
        pairs = list(itertools.product(A2, small)) + list(itertools.product(small, A2))
        unary_vals = A2
    else:
        pairs = list(itertools.product(A, A))
        unary_vals = A

    def both(opname, case, exp, RS, fold_thunk, solve_key, solve_ast, subs, detail):
        part.count("transitions", 2)
        part.count("evaluations_folded")
        part.count("evaluations_solved")
        # folded
        try:
            got = folded_value(fold_thunk(), S if RS is S else (RS if RS is not None else S))
            _cmp(part, f"fold:{opname}:{rm}", f"fold|{case}", exp, got, RS, detail)
        except Exception as e:  # noqa: BLE001
            part.fail(f"fold:{opname}:raised:{type(e).__name__}", f"fold|{case}", {"error": str(e)[:160], **detail}, {"kind": "fp", "case": case})
        # solved
        try:
            got = cx.solved(solve_key, solve_ast, subs)
            _cmp(part, f"solve:{opname}:{rm}", f"solve|{case}", exp, got, RS, detail)
        except Exception as e:  # noqa: BLE001
            part.fail(f"solve:{opname}:raised:{type(e).__name__}", f"solve|{case}", {"error": str(e)[:160], **detail}, {"kind": "fp", "case": case})

    # -- binary arithmetic ---------------------------------------------------------------------
    for a, b in pairs:
        fa, fb = V.fpv(a, S), V.fpv(b, S)
        subs = [(cx.za, znum(a, S, cx.ctx)), (cx.zb, znum(b, S, cx.ctx))]
        la, lb = F.show(a, S), F.show(b, S)
        for opname, (cf, rf) in _arith_ops().items():
            exp = rf(a, b, S, rm)
            both(opname, f"{opname}|{rm}|{la}|{lb}", exp, S, lambda: cf(crm, fa, fb), (opname, rm), lambda: cf(crm, cx.a, cx.b), subs, {"a": la, "b": lb, "rm": rm})
        if rm == "RNE":
            for opname, (cf, rf) in _cmp_ops().items():
                exp = rf(a, b, S)
                both(opname, f"{opname}|{la}|{lb}", exp, None, lambda: cf(fa, fb), (opname,), lambda: cf(cx.a, cx.b), subs, {"a": la, "b": lb})
    if mode == "closure":
        part.sample({"sort": sname, "rm": rm, "closure_operands": [F.show(v, S) for v in unary_vals[:3]], "n": len(unary_vals)}, limit=1)
    # -- unary ----------------------------------------------------------------------------------
    for a in unary_vals:
        fa = V.fpv(a, S)
        subs = [(cx.za, znum(a, S, cx.ctx))]
        la = F.show(a, S)
        both("fpSqrt", f"fpSqrt|{rm}|{la}", F.sqrt(a, S, rm), S, lambda: claripy.fpSqrt(crm, fa), ("sqrt", rm), lambda: claripy.fpSqrt(crm, cx.a), subs, {"a": la, "rm": rm})
        ct = V.CL_SORT[T.name]
        both("fpToFP", f"fpToFP|{rm}|{la}->{T.name}", F.convert(a, S, T, rm), T, lambda: claripy.fpToFP(crm, fa, ct), ("tofp", rm), lambda: claripy.fpToFP(crm, cx.a, ct), subs, {"a": la, "rm": rm})
        for n in (8, 32, 64):
            both(f"fpToSBV{n}", f"fpToSBV{n}|{rm}|{la}", F.to_sbv(a, S, n, rm), None, lambda: claripy.fpToSBV(crm, fa, n), ("sbv", rm, n), lambda: claripy.fpToSBV(crm, cx.a, n), subs, {"a": la, "rm": rm})
            both(f"fpToUBV{n}", f"fpToUBV{n}|{rm}|{la}", F.to_ubv(a, S, n, rm), None, lambda: claripy.fpToUBV(crm, fa, n), ("ubv", rm, n), lambda: claripy.fpToUBV(crm, cx.a, n), subs, {"a": la, "rm": rm})
        if rm == "RNE":
            both("fpAbs", f"fpAbs|{la}", F.NAN if F.is_nan(a, S) else F.fabs(a, S), S, lambda: claripy.fpAbs(fa), ("abs",), lambda: claripy.fpAbs(cx.a), subs, {"a": la})
            both("fpNeg", f"fpNeg|{la}", F.NAN if F.is_nan(a, S) else F.neg(a, S), S, lambda: claripy.fpNeg(fa), ("neg",), lambda: claripy.fpNeg(cx.a), subs, {"a": la})
            both("fpIsNaN", f"fpIsNaN|{la}", F.is_nan(a, S), None, lambda: claripy.fpIsNaN(fa), ("isnan",), lambda: claripy.fpIsNaN(cx.a), subs, {"a": la})
            both("fpIsInf", f"fpIsInf|{la}", F.is_inf(a, S), None, lambda: claripy.fpIsInf(fa), ("isinf",), lambda: claripy.fpIsInf(cx.a), subs, {"a": la})
            both("fpToIEEEBV", f"fpToIEEEBV|{la}", None if F.is_nan(a, S) else a, None, lambda: claripy.fpToIEEEBV(fa), ("ieee",), lambda: claripy.fpToIEEEBV(cx.a), subs, {"a": la})
            # FPV construction itself: the leaf must carry the pattern it was built from
            part.count("transitions")
            try:
                got = folded_value(fa, S)
                _cmp(part, "fold:FPV", f"fold|FPV|{la}", F.NAN if F.is_nan(a, S) else a, got, S, {"a": la})
                gz = zvalue(claripy.backends.z3.convert(fa), S)
                _cmp(part, "solve:FPV", f"solve|FPV|{la}", F.NAN if F.is_nan(a, S) else a, gz, S, {"a": la})
            except Exception as e:  # noqa: BLE001
                part.fail(f"FPV:raised:{type(e).__name__}", f"FPV|{la}", {"error": str(e)[:160]})
    if mode == "closure":
        return part.dump()
    # -- FPV(python float, FLOAT): the leaf must carry the double rounded to single precision (RNE) ------------
    if S is F.FLOAT and rm == "RNE":
        from fractions import Fraction

        doubles = set(V.fp_alphabet(F.DOUBLE, "full"))
        for q in (
            (1 << 24) + 1, (1 << 24) + 3, (1 << 25) - 1, (1 << 25) + 1, (1 << 25) + 3, (1 << 26) - 1, -((1 << 24) + 1), (1 << 31) + 129, (1 << 53) - 1,
            Fraction(1) + Fraction(1, 1 << 24), Fraction(1) + Fraction(3, 1 << 25), Fraction(1, 10), Fraction(1, 3), Fraction(16777217, 2), Fraction(33554433, 4),
            Fraction(1, 1 << 149), Fraction(3, 1 << 150), Fraction(1, 1 << 150), Fraction(2) ** 128 - Fraction(2) ** 103, Fraction(2) ** 127 * Fraction(3, 2),
        ):
            doubles.add(F.round_fraction(Fraction(q), F.DOUBLE, "RNE"))
        for d in sorted(doubles):
            part.count("transitions")
            part.count("fpv_from_double")
            pd = F.pyfloat_of_bits(d, F.DOUBLE)
            exp = F.convert(d, F.DOUBLE, F.FLOAT, "RNE")
            case = f"fold|FPV(double->FLOAT)|{F.show(d, F.DOUBLE)}"
            try:
                leaf = claripy.FPV(pd, V.CL_SORT["FLOAT"])
                _cmp(part, "fold:FPV:from-double", case, exp, folded_value(leaf, F.FLOAT), F.FLOAT, {"double": F.show(d, F.DOUBLE)})
                # and what a further folded operation and the Z3 translation make of that leaf
                one = claripy.FPV(1.0, V.CL_SORT["FLOAT"])
                if exp != F.NAN:
                    _cmp(part, "fold:FPV:from-double+1", case + "|+1.0", F.add(exp, F.bits_of_pyfloat(1.0, F.FLOAT), F.FLOAT, "RNE"), folded_value(claripy.fpAdd(crm, leaf, one), F.FLOAT), F.FLOAT, {"double": F.show(d, F.DOUBLE)})
                    _cmp(part, "solve:FPV:from-double", "solve|" + case[5:], exp, zvalue(claripy.backends.z3.convert(leaf), F.FLOAT), F.FLOAT, {"double": F.show(d, F.DOUBLE)})
            except Exception as e:  # noqa: BLE001
                part.fail(f"fold:FPV:from-double:raised:{type(e).__name__}", case, {"error": str(e)[:160]})
    # -- shapes the two FP rewrites (fptobv_simplifier, fptofp_simplifier) look for -----------------------------
    cs0 = V.CL_SORT[S.name]
    xb, zxb = cx.bvvar(S.width)
    for a in unary_vals:
        if F.is_nan(a, S):
            continue  # the bit pattern of a NaN is unspecified
        la = F.show(a, S)
        subs = [(cx.za, znum(a, S, cx.ctx))]
        sa = a - (1 << S.width) if a >> (S.width - 1) else a
        fa = V.fpv(a, S)
        # raw round trips are the identity
        both("raw(raw(a))", f"fpToFP(fpToIEEEBV(a))|{la}", a, S, lambda: claripy.fpToFP(claripy.fpToIEEEBV(fa), cs0), ("rr",), lambda: claripy.fpToFP(claripy.fpToIEEEBV(cx.a), cs0), subs, {"a": la})
        both("a.raw_to_bv().raw_to_fp()", f"raw_to_bv.raw_to_fp|{la}", a, S, lambda: fa.raw_to_bv().raw_to_fp(), ("rr2",), lambda: cx.a.raw_to_bv().raw_to_fp(), subs, {"a": la})
        # the VALUE conversion of the raw bits is not the identity
        both("val(raw(a))", f"fpToFP({rm},fpToIEEEBV(a))|{la}", F.from_int(sa, S, rm), S, lambda: claripy.fpToFP(crm, claripy.fpToIEEEBV(fa), cs0), ("vr", rm), lambda: claripy.fpToFP(crm, claripy.fpToIEEEBV(cx.a), cs0), subs, {"a": la, "rm": rm})
        both("a.raw_to_bv().val_to_fp()", f"raw_to_bv.val_to_fp[{rm}]|{la}", F.from_int(sa, S, rm), S, lambda: fa.raw_to_bv().val_to_fp(cs0, True, crm), ("vr2", rm), lambda: cx.a.raw_to_bv().val_to_fp(cs0, True, crm), subs, {"a": la, "rm": rm})
        both("uval(raw(a))", f"fpToFPUnsigned({rm},fpToIEEEBV(a))|{la}", F.from_int(a, S, rm), S, lambda: claripy.fpToFPUnsigned(crm, claripy.fpToIEEEBV(fa), cs0), ("uvr", rm), lambda: claripy.fpToFPUnsigned(crm, claripy.fpToIEEEBV(cx.a), cs0), subs, {"a": la, "rm": rm})
        # bits of a reinterpreted bitvector
        subsb = [(zxb, z3.BitVecVal(a, S.width, cx.ctx))]
        bva = claripy.BVV(a, S.width)
        both("raw(raw(bv))", f"fpToIEEEBV(fpToFP(bv))|{la}", a, None, lambda: claripy.fpToIEEEBV(claripy.fpToFP(bva, cs0)), ("brr",), lambda: claripy.fpToIEEEBV(claripy.fpToFP(xb, cs0)), subsb, {"bits": hex(a)})
    # -- BV -> FP ------------------------------------------------------------------------------
    cs = V.CL_SORT[S.name]
    for w in (8, 32, 64):
        xv, zx = cx.bvvar(w)
        for v in V.bv_boundaries(w):
            bv = claripy.BVV(v, w)
            sv = v - (1 << w) if v >> (w - 1) else v
            subs = [(zx, z3.BitVecVal(v, w, cx.ctx))]
            both("fpToFP_signed", f"fpToFP_signed|{rm}|{v}#{w}->{S.name}", F.from_int(sv, S, rm), S, lambda: claripy.fpToFP(crm, bv, cs), ("s2f", rm, w), lambda: claripy.fpToFP(crm, xv, cs), subs, {"v": v, "w": w, "rm": rm})
            both("fpToFPUnsigned", f"fpToFPUnsigned|{rm}|{v}#{w}->{S.name}", F.from_int(v, S, rm), S, lambda: claripy.fpToFPUnsigned(crm, bv, cs), ("u2f", rm, w), lambda: claripy.fpToFPUnsigned(crm, xv, cs), subs, {"v": v, "w": w, "rm": rm})
    if rm == "RNE":
        xv, zx = cx.bvvar(S.width)
        for v in sorted(set(V.bv_boundaries(S.width)) | set(A)):
            bv = claripy.BVV(v, S.width)
            subs = [(zx, z3.BitVecVal(v, S.width, cx.ctx))]
            exp = F.NAN if F.is_nan(v, S) else v
            both("fpToFP_raw", f"fpToFP_raw|{v:#x}->{S.name}", exp, S, lambda: claripy.fpToFP(bv, cs), ("raw",), lambda: claripy.fpToFP(xv, cs), subs, {"bits": hex(v)})
            both("raw_to_fp", f"raw_to_fp|{v:#x}->{S.name}", exp, S, lambda: bv.raw_to_fp(), ("raw2",), lambda: xv.raw_to_fp(), subs, {"bits": hex(v)})
            # fpFP(sign, exponent, significand)
            sg, ex, fr = F.fields(v, S)
            sgn, exv, frv = claripy.BVV(sg, 1), claripy.BVV(ex, S.eb), claripy.BVV(fr, S.fbits)
            part.count("transitions")
            try:
                r = claripy.fpFP(sgn, exv, frv)
                got = folded_value(r, S) if not r.symbolic and r.op == "FPV" else zvalue(claripy.backends.z3.convert(r), S)
                _cmp(part, "fold:fpFP", f"fpFP|{v:#x}->{S.name}", exp, got, S, {"bits": hex(v)})
            except Exception as e:  # noqa: BLE001
                part.fail(f"fpFP:raised:{type(e).__name__}", f"fpFP|{v:#x}->{S.name}", {"error": str(e)[:160]})
    part.sample({"sort": sname, "rm": rm, "operand_pairs": len(pairs), "example": f"fpAdd|{rm}|{F.show(pairs[0][0], S)}|{F.show(pairs[-1][1], S)}"}, limit=1)
    return part.dump()


def run(tier: str) -> int:
    rep = Report(
        PID,
        tier,
        "exploration",
        rule="E2: operation x rounding mode x operand tuple over the boundary alphabet of FLOAT and DOUBLE; each case run "
        "folded (concrete FPV operands) and solved (FPS variables, backends.z3 translation, numerals substituted, ground "
        "evaluation); oracle = exact rational arithmetic with one explicit rounding (fpref); distinct = (path, op, rm, operands)",
    )
    selftest(rep)
    size = "small" if tier == "quick" else "full"
    items = [(s, rm, size, "base") for s in ("FLOAT", "DOUBLE") for rm in F.RMS]
    if tier == "thorough":
        items += [(s, rm, "small", "closure") for s in ("FLOAT", "DOUBLE") for rm in F.RMS]
    for res in pmap(_job, items):
        rep.merge(res)
    rep.exhaustive = True
    rep.counts["states"] = sum(len(V.fp_alphabet(S, size)) for S in (F.FLOAT, F.DOUBLE))
    rep.extra["alphabet"] = {S.name: [F.show(v, S) for v in V.fp_alphabet(S, size)] for S in (F.FLOAT, F.DOUBLE)}
    rep.assumptions = [
        "exhaustive over the stated boundary alphabet only (float32/float64 cannot be enumerated)",
        "NaN payloads and to-integer conversions of NaN / inf / out-of-range values are unspecified and skipped",
        "fpref agrees with hardware (RNE) and with Z3 ground evaluation (all modes) on the small alphabet (checked at set-up)",
    ]
    return rep.finish()


def replay(path: str) -> int:
    data = json.load(open(path))
    bad = 0
    for c in data["cases"]:
        case = c["case"]
        parts = case.split("|")
        # re-run the job that contains the case
        rm = next((p for p in parts if p in F.RMS), "RNE")
        sname = "FLOAT" if "FLOAT" in case else "DOUBLE"
        hit = False
        for mode, size in (("base", "full"), ("closure", "small")):
            res = _job((sname, rm, size, mode))
            if any(f["case"] == case for f in res["failures"]):
                hit = True
                break
        if hit:
            bad += 1
            print(f"VIOLATION property={PID} replay={path}")
            print("  ", case)
        else:
            print("replay:", case, "holds now")
    return 1 if bad else 0
