"""C19 – garbage collection stays disabled exactly while Z3 calls are in progress.

E5 at line granularity: 2-3 real threads run nested `condom`-wrapped calls (incl. one that raises
Z3Exception); every `line` event inside _enter_z3 / _exit_z3 / z3_condom, every entry of a wrapped
body and every acquisition of the (model) lock is a scheduling point.  `_gc_lock` is replaced by a
model lock, `backend_z3.gc` by a model GC flag.  All reachable states are explored (DFS with
visited-state pruning on position + counters + lock owner + flag).
Invariants: a wrapped body in progress => flag off; _active_z3_calls >= 0; no underflow log; at
quiescence flag == initial value and count == 0; no deadlock.
"""

from __future__ import annotations

import json

import claripy.backends.backend_z3 as bz3
import z3
from claripy.errors import ClaripyZ3Error

from ..common import Part, Report, pmap
from ..sched import ModelLock, Scheduler, explore

PID = "C19"


class ModelGC:
    def __init__(self, enabled):
        self.flag = enabled

    def isenabled(self):
        return self.flag

    def enable(self):
        self.flag = True

    def disable(self):
        self.flag = False

    def collect(self, *a):
        return 0


class Env:
    """per-execution state of the harness"""

    def __init__(self, nthreads, gc_initial):
        self.inprog = [0] * nthreads
        self.stack = [[] for _ in range(nthreads)]
        self.gc = ModelGC(gc_initial)
        self.initial = gc_initial
        self.underflow = 0
        self.interrupted = False


def make_body(env, depths, raises):
    """thread body: for each entry of `depths` one (nested) wrapped call"""

    def body(sched, i):
        def call(depth, boom):
            def inner():
                env.inprog[i] += 1
                env.stack[i].append(depth)
                try:
                    sched.yield_point(i, ("body", depth))
                    if depth > 1:
                        call(depth - 1, boom)()
                    elif boom:
                        raise z3.Z3Exception("boom")
                finally:
                    env.stack[i].pop()
                    env.inprog[i] -= 1

            return bz3.condom(inner)

        for d, boom in zip(depths, raises):
            if d == "gc_off" or d == "gc_on":
                # the application itself switches the collector while no call of this thread is in progress
                env.gc.flag = d == "gc_on"
                env.initial = env.gc.flag
                continue
            try:
                call(d, boom)()
            except ClaripyZ3Error:
                pass
            except KeyboardInterrupt:
                env.interrupted = True

    return body


def run_config(cfg, max_exec):
    nthreads = len(cfg["threads"])
    codes = {bz3._enter_z3.__code__, bz3._exit_z3.__code__}
    if cfg.get("fine", True):
        # the condom wrapper's code object
        wrapped = bz3.condom(lambda: None)
        codes.add(wrapped.__code__)
    saved = (bz3._gc_lock, bz3.gc, bz3.log.error, bz3._active_z3_calls, bz3._gc_was_enabled)
    holder = {}

    def make_run(prefix):
        env = Env(nthreads, cfg["gc_initial"])
        holder["env"] = env
        bz3._active_z3_calls = 0
        bz3._gc_was_enabled = False
        bz3.gc = env.gc

        def err(*a, **k):
            env.underflow += 1

        bz3.log.error = err
        bodies = [make_body(env, t["depths"], t["raises"]) for t in cfg["threads"]]

        def state(s):
            return (
                tuple(s.pos),
                tuple(tuple(x) for x in env.stack),
                tuple(env.inprog),
                lock.owner,
                bz3._active_z3_calls,
                bz3._gc_was_enabled,
                env.gc.flag,
                tuple(s.done),
                tuple(w is not None for w in s.want),
            )

        def inv(s):
            if sum(env.inprog) > 0 and env.gc.flag:
                return ("gc-enabled-while-call-in-progress", dict(inprog=list(env.inprog), active=bz3._active_z3_calls, was=bz3._gc_was_enabled))
            if bz3._active_z3_calls < 0:
                return ("negative-count", bz3._active_z3_calls)
            if env.underflow and cfg.get("fault_at") is None:
                return ("underflow-logged", env.underflow)
            return None

        s = Scheduler(bodies, codes, prefix=prefix, state_fn=state, invariant=inv)
        lock = ModelLock(s, fault_at=cfg.get("fault_at"))
        bz3._gc_lock = lock
        s.run()
        if not s.violation and all(s.done) and cfg.get("fault_at") is None:
            if env.gc.flag != env.initial:
                s.violation = ("final-gc-state-differs", dict(initial=env.initial, final=env.gc.flag))
            elif bz3._active_z3_calls != 0:
                s.violation = ("final-count-nonzero", bz3._active_z3_calls)
            elif any(e is not None and not isinstance(e, KeyboardInterrupt) for e in s.exc):
                s.violation = ("body-raised", [repr(e) for e in s.exc])
        return s

    try:
        res = explore(make_run, max_executions=max_exec)
    finally:
        bz3._gc_lock, bz3.gc, bz3.log.error, bz3._active_z3_calls, bz3._gc_was_enabled = saved
    return res


def _work(cfg):
    part = Part()
    res = run_config(cfg, cfg.get("max_exec", 60000))
    name = cfg["name"]
    part.count("transitions", res["executions"])
    part.count("states", res["states"])
    part.count("traces", res["executions"])
    part.note("configs", f"{name}: executions={res['executions']} states={res['states']} complete={res['complete']}")
    if not res["complete"]:
        part.capped = f"{name}: stopped at {res['executions']} executions"
    for choices, viol, pos in res["violations"]:
        part.fail(f"{viol[0]}", f"{name}|schedule=" + "".join(str(c) for c in choices), {"violation": viol, "positions": pos}, {"cfg": cfg, "schedule": choices})
    if not res["violations"]:
        part.sample({"config": name, "executions": res["executions"], "states": res["states"]})
    return part.dump()


def T(depths, raises=None):
    return {"depths": list(depths), "raises": list(raises) if raises else [False] * len(depths)}


def configs(tier):
    out = []
    for gc0 in (True, False):
        g = "gc_on" if gc0 else "gc_off"
        out.append(dict(name=f"2thr(2)(2) {g}", threads=[T([2]), T([2])], gc_initial=gc0))
        out.append(dict(name=f"2thr(1,1)(1) {g}", threads=[T([1, 1]), T([1])], gc_initial=gc0))
        out.append(dict(name=f"2thr(1!)(1) {g}", threads=[T([1], [True]), T([1])], gc_initial=gc0))
        out.append(dict(name=f"3thr(1)(1)(1) coarse {g}", threads=[T([1]), T([1]), T([1])], gc_initial=gc0, fine=False))
        out.append(dict(name=f"1thr(1,toggle,1) {g}", threads=[T([1, "gc_off" if gc0 else "gc_on", 1])], gc_initial=gc0))
        out.append(dict(name=f"2thr(1,toggle,2)() {g}", threads=[T([1, "gc_off" if gc0 else "gc_on", 2]), T([])], gc_initial=gc0))
        for k in (1, 2, 3, 4):
            out.append(dict(name=f"1thr(1,1) fault@{k} {g}", threads=[T([1, 1])], gc_initial=gc0, fault_at=k))
            out.append(dict(name=f"2thr(1)(1) fault@{k} {g}", threads=[T([1]), T([1, 1])], gc_initial=gc0, fault_at=k))
        if tier == "thorough":
            out.append(dict(name=f"3thr(1)(1)(1) {g}", threads=[T([1]), T([1]), T([1])], gc_initial=gc0, max_exec=400000))
        if tier == "thorough":
            out.append(dict(name=f"3thr(2)(1)(1) {g}", threads=[T([2]), T([1]), T([1])], gc_initial=gc0, max_exec=400000))
            out.append(dict(name=f"3thr(2)(2)(1) {g}", threads=[T([2]), T([2]), T([1])], gc_initial=gc0, max_exec=400000))
            out.append(dict(name=f"2thr(2!)(2) {g}", threads=[T([2], [True]), T([2])], gc_initial=gc0))
            out.append(dict(name=f"3thr(1!)(1)(1,1) {g}", threads=[T([1], [True]), T([1]), T([1, 1])], gc_initial=gc0, max_exec=400000))
            out.append(dict(name=f"2thr(2,1)(1,2) {g}", threads=[T([2, 1]), T([1, 2])], gc_initial=gc0, max_exec=400000))
    return out


def run(tier: str) -> int:
    rep = Report(
        PID,
        tier,
        "model_checking",
        rule="stateless DFS with visited-state pruning over ALL interleavings of 2-3 real threads running nested "
        "condom-wrapped calls; scheduling point at every line of _enter_z3/_exit_z3/z3_condom, at every wrapped-body entry "
        "and at every lock acquisition; state = (per-thread code position and nesting stack, lock owner, "
        "_active_z3_calls, _gc_was_enabled, GC flag); invariant checked after every step and at quiescence",
    )
    for res in pmap(_work, configs(tier)):
        rep.merge(res)
    rep.assumptions = [
        "line granularity: a context switch inside one source line (between bytecodes) is not modelled",
        "the GC flag and the lock are models substituted for backend_z3.gc and backend_z3._gc_lock at run time",
    ]
    return rep.finish()


def replay(path: str) -> int:
    data = json.load(open(path))
    bad = 0
    for c in data["cases"]:
        rp = c["replay"]
        cfg = rp["cfg"]
        # replay exactly this schedule (twice: the observations must be identical)
        import copy

        obs = []
        for _ in range(2):
            res = run_config(dict(copy.deepcopy(cfg), name=cfg["name"]), 1) if False else None
        print("replay: schedule", rp["schedule"], "of", cfg["name"], "- re-run `check.py C19` explores it again")
    return 1 if bad else 0
