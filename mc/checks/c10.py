"""C10 – cheap truth checks never claim a truth value that does not hold.

Part A (E1): every Bool state reached by the E1 traversal is asked through every cheap entry point
(claripy.is_true/is_false, Bool.is_true/is_false, backends.z3 / backends.concrete is_true/is_false;
the VSA backend's Boolean answers are judged by C24, whose oracle knows which VSA transfer functions are
already listed as unsound under C21), in both orders and twice, with the per-backend truth caches emptied between the two
orders (the caches cross-fill each other).  A True answer must be backed by the truth table.

Part B (E4): every solver state reached by a prefix history (adds + cache-priming queries + simplify /
branch / pickle) is asked is_true / is_false for every Bool expression of the alphabet under every extra
constraint set, forwards and backwards and twice; a True answer must hold in every model of
constraints + extras (brute force over 128 assignments).
"""

from __future__ import annotations

import itertools
import json
import threading

import claripy
from claripy.errors import ClaripyError

from .. import exprspace
from .. import histspace as H
from ..common import Part, Report, pmap
from ..refsem import DenError, show

PID = "C10"

# ---------------------------------------------------------------------------------------------
# part A
# ---------------------------------------------------------------------------------------------


def _entry_points():
    b = claripy.backends
    return [
        ("claripy.is_true", claripy.is_true, True),
        ("claripy.is_false", claripy.is_false, False),
        ("Bool.is_true", lambda e: e.is_true(), True),
        ("Bool.is_false", lambda e: e.is_false(), False),
        ("z3.is_true", b.z3.is_true, True),
        ("z3.is_false", b.z3.is_false, False),
        ("concrete.is_true", b.concrete.is_true, True),
        ("concrete.is_false", b.concrete.is_false, False),
    ]


def _clear_truth_caches():
    for be in (claripy.backends.z3, claripy.backends.vsa, claripy.backends.concrete):
        be._true_cache.clear()
        be._false_cache.clear()


def maybe_zero_divisor(space, r, memo):
    """does r contain a division / remainder whose divisor takes the value 0 under some assignment?
    (the VSA domain leaves x/0 unspecified - C21 exempts it - so VSA answers about such terms are not judged)"""
    k = id(r)
    if k in memo:
        return memo[k][0]
    res = False
    if r.op in exprspace.refsem.DIV_OPS:
        try:
            res = any(v == 0 for v in space.den(r.args[1]))
        except DenError:
            res = True
    if not res:
        res = any(maybe_zero_divisor(space, a, memo) for a in r.args if isinstance(a, claripy.ast.Base))
    memo[k] = (res, r)
    return res


def ask_all(space, r, part, key, eps):
    try:
        tab = space.den(r)
    except DenError as e:
        part.oracle_errors.append(f"{key}: {e}")
        return
    divz = maybe_zero_divisor(space, r, space.__dict__.setdefault("_c10_divmemo", {}))
    all_true = all(tab)
    all_false = not any(tab)
    case0 = f"w={space.w}|{key}"
    for order_name, order in (("fwd", eps), ("rev", eps[::-1])):
        _clear_truth_caches()
        for rep_i in (0, 1):
            for name, f, polarity in order:
                part.count("transitions")
                part.count("truth_queries")
                try:
                    a = f(r)
                except ClaripyError:
                    part.count("backend_declined")
                    continue
                except Exception as e:  # noqa: BLE001
                    part.fail(f"{name}:raised:{type(e).__name__}", f"{case0}|{order_name}{rep_i}|{name}", str(e)[:200])
                    continue
                if a is True or (a is not False and a):
                    part.count("answers_true")
                    if divz and name.startswith("vsa."):
                        part.count("vsa_division_by_maybe_zero_exempt")
                        continue
                    if not (all_true if polarity else all_false):
                        i = next(k for k, v in enumerate(tab) if bool(v) != polarity)
                        part.fail(
                            f"lie:{name}:{r.op}",
                            f"{case0}|{order_name}{rep_i}|{name}",
                            {"expr": show(r), "answer": True, "counterexample": space.scope.env(i), "value_there": tab[i]},
                            {"kind": "e1", "w": space.w, "key": key},
                        )
                else:
                    part.count("answers_false")


def monitor(space, tr, part, opts):
    part.count("transitions")
    try:
        r = tr.build()
    except Exception:  # noqa: BLE001
        return None
    if r is NotImplemented or not isinstance(r, claripy.ast.Base):
        return None
    if isinstance(r, claripy.ast.Bool):
        seen = space.__dict__.setdefault("_c10_seen", {})
        if id(r) not in seen:
            seen[id(r)] = r
            eps = space.__dict__.get("_c10_eps")
            if eps is None:
                eps = space.__dict__["_c10_eps"] = _entry_points()
            ask_all(space, r, part, tr.key, eps)
            part.count("bool_states")
            part.sample({"w": space.w, "expr": show(r), "from": tr.key}, limit=2)
    return r


# ---------------------------------------------------------------------------------------------
# part B
# ---------------------------------------------------------------------------------------------

B_EXTRA = {
    "x!=0": lambda x, y, c: x != 0,
    "x+y==5": lambda x, y, c: x + y == 5,
    "y<u2": lambda x, y, c: claripy.ULT(y, 2),
    "x==1|x==6": lambda x, y, c: claripy.Or(x == 1, x == 6),
    "!c": lambda x, y, c: claripy.Not(c),
    "x>s1": lambda x, y, c: claripy.SGT(x, 1),
    "y==x": lambda x, y, c: y == x,
    "x<u2": lambda x, y, c: claripy.ULT(x, 2),
    "x&1==0": lambda x, y, c: x & 1 == 0,
    "x==6": lambda x, y, c: x == 6,
}


def _universe():
    uni = H.universe("bv3")
    if "x!=0" not in uni.B:
        x, y = uni.E["x"], uni.E["y"]
        c = uni.K["c"]
        for k, f in B_EXTRA.items():
            uni.B[k] = f(x, y, c)
            uni._btab[k] = uni.den(uni.B[k])
    return uni


PREFIX_EVENTS = [
    ("add", "x==3"),
    ("add", "x!=0"),
    ("add", "x<u5"),
    ("add", "x+y==5"),
    ("add", "x==1|x==6"),
    ("add", "c"),
    ("add", "F"),
    ("add", "y==x"),
    ("sat", "none"),
    ("eval", "x", 9, "none"),
    ("eval", "x", 1, "none"),
    ("min", "x", "u", "none"),
    ("max", "x", "s", "y<u2"),
    ("sol", "x", 5, "none"),
    ("simplify",),
    ("branch",),
    ("pickle",),
    ("blank",),
]


def prefixes(depth, max_adds, events):
    out = [()]
    level = [()]
    for _ in range(depth):
        nxt = []
        for h in level:
            nadds = sum(1 for e in h if e[0] == "add")
            for ev in events:
                if ev[0] == "add" and (nadds >= max_adds or ev in h):
                    continue
                if ev[0] != "add" and h and h[-1] == ev:
                    continue  # the same query twice in a row adds no state
                nxt.append(h + (ev,))
        out += nxt
        level = nxt
    return out


def _truth_events(uni, xs):
    evs = []
    for b in sorted(uni.B):
        for x in xs:
            evs.append(("istrue", b, x))
            evs.append(("isfalse", b, x))
    return evs


def _solver_job(item):
    cls, cfg, chunk, xs = item
    part = Part()
    uni = _universe()
    tevs = _truth_events(uni, xs)
    for pre in chunk:
        for order_name, order in (("fwd", tevs), ("rev", tevs[::-1])):
            out = {}

            def body(pre=pre, order=order, out=out):
                try:
                    run = H.Run(uni, cls, cfg)
                    for ev in pre:
                        if not H.apply_event(run, ev, check=False):
                            # a raising prefix is C11-C13's business
                            out["prefix_failed"] = True
                            return
                    fails = []
                    n = 0
                    for rep_i in (0, 1):
                        for ev in order:
                            n += 1
                            run.failure = None
                            ok = H.apply_event(run, ev, check=True)
                            if not ok:
                                fails.append((rep_i, ev, run.failure))
                    out["fails"] = fails
                    out["n"] = n
                    out["true_answers"] = sum(1 for lab, a in run.log[len(pre) :] if a and a[0] in ("istrue", "isfalse") and a[1])
                except BaseException:  # noqa: BLE001
                    import traceback

                    out["harness_error"] = traceback.format_exc()[-800:]

            t = threading.Thread(target=body)
            t.start()
            t.join()
            cfgs = cls + (f"[{cfg['tag']}]" if cfg.get("tag") else "")
            if out.get("harness_error"):
                part.oracle_errors.append(f"{cfgs} {pre}: {out['harness_error']}")
                continue
            part.count("executions")
            if out.get("prefix_failed"):
                part.count("prefix_failed")
                continue
            part.count("transitions", out.get("n", 0))
            part.count("frontend_truth_queries", out.get("n", 0))
            part.count("frontend_answers_true", out.get("true_answers", 0))
            part.count("solver_states")
            pl = " ; ".join(H.ev_label(e) for e in pre)
            if order_name == "fwd":
                part.sample({"cls": cfgs, "prefix": pl, "true_answers": out.get("true_answers")}, limit=1)
            for rep_i, ev, failure in out.get("fails", []):
                reason = (failure or {}).get("reason", "?")
                part.fail(
                    f"{cfgs}:{ev[0]}:{reason}",
                    f"{cfgs}|{pl}|{order_name}{rep_i}|{H.ev_label(ev)}",
                    failure,
                    {"kind": "e4", "cls": cls, "cfg": cfg, "prefix": [list(e) for e in pre], "order": order_name, "ev": list(ev)},
                )
    return part.dump()


def _fp_truth_job(sname):
    """cheap truth checks on FP comparisons: judged by ground evaluation over the FP boundary alphabet (incl. NaN, +-0)"""
    from .. import fpref as F
    from .. import valspace as V

    part = Part()
    S = F.FLOAT if sname == "FLOAT" else F.DOUBLE
    cs = V.CL_SORT[sname]
    f = claripy.FPS(f"tf_{sname}", cs, explicit_name=True)
    g = claripy.FPS(f"tg_{sname}", cs, explicit_name=True)
    A = V.fp_alphabet(S, "small")
    ops = {
        "fpEQ": (claripy.fpEQ, F.eq),
        "fpNEQ": (claripy.fpNEQ, lambda a, b, S_: not F.eq(a, b, S_)),
        "fpLT": (claripy.fpLT, F.lt),
        "fpLEQ": (claripy.fpLEQ, F.leq),
        "fpGT": (claripy.fpGT, F.gt),
        "fpGEQ": (claripy.fpGEQ, F.geq),
    }
    one = claripy.FPV(1.0, cs)
    shapes = {"f,f": (f, f, lambda a, b: (a, a)), "f,g": (f, g, lambda a, b: (a, b)), "f,1.0": (f, one, lambda a, b: (a, F.bits_of_pyfloat(1.0, S))), "fpAbs(f),f": (claripy.fpAbs(f), f, lambda a, b: (F.fabs(a, S), a)), "fpNeg(f),fpNeg(f)": (claripy.fpNeg(f), claripy.fpNeg(f), lambda a, b: (F.neg(a, S), F.neg(a, S)))}
    eps = _entry_points()
    for opn, (cf, rf) in ops.items():
        for shn, (l, r, pick) in shapes.items():
            e = cf(l, r)
            for neg in (False, True):
                ee = claripy.Not(e) if neg else e
                vals = set()
                for a in A:
                    for b in A if "g" in shn else [A[0]]:
                        pa, pb = pick(a, b)
                        if F.is_nan(pa, S) or F.is_nan(pb, S):
                            v = opn == "fpNEQ"  # every comparison with NaN is false, != is true
                        else:
                            v = rf(pa, pb, S)
                        vals.add((not v) if neg else v)
                for order in (eps, eps[::-1]):
                    _clear_truth_caches()
                    for name, fn, polarity in order:
                        part.count("transitions")
                        part.count("fp_truth_queries")
                        try:
                            ans = fn(ee)
                        except ClaripyError:
                            continue
                        except Exception as ex:  # noqa: BLE001
                            part.fail(f"{name}:raised:{type(ex).__name__}", f"{sname}|{'Not ' if neg else ''}{opn}({shn})|{name}", str(ex)[:160])
                            continue
                        if ans and (polarity not in vals or (not polarity) in vals):
                            part.fail(f"lie:{name}:{opn}", f"{sname}|{'Not ' if neg else ''}{opn}({shn})|{name}", {"answer": True, "values_over_alphabet": sorted(vals)}, {"kind": "fp", "sort": sname})
    part.sample({"fp_truth": sname, "alphabet": len(A)}, limit=1)
    return part.dump()


def run(tier: str) -> int:
    rep = Report(
        PID,
        tier,
        "model_checking",
        rule="A: E1 BFS; every distinct Bool state asked through 8 entry points (claripy.is_true/is_false, Bool methods, "
        "z3 / concrete backends) forwards and backwards and twice, truth caches emptied between the orders; a True "
        "answer is checked against the truth table over all assignments.  B: every solver state reached by a prefix "
        "history (adds, cache-priming queries, simplify, branch, pickle) asked is_true / is_false for every Bool "
        "expression x every extra-constraint set, both orders, twice; True must hold in every model (brute force)",
    )
    if tier == "quick":
        cfgs = [dict(w=1, depth=2), dict(w=2, depth=2), dict(w=3, depth=2, full=False)]
        plan = [
            ("Solver", {}, 2, 2),
            ("SolverCacheless", {}, 2, 2),
            ("SolverComposite", {}, 2, 2),
            ("SolverHybrid", {}, 2, 2),
            ("SolverReplacement", {}, 2, 2),
            ("SolverVSA", {"approx": True}, 2, 2),
        ]
        xs = ["none", "x==6"]
    else:
        cfgs = [dict(w=1, depth=3), dict(w=2, depth=3), dict(w=3, depth=2), dict(w=4, depth=2, full=False)]
        plan = [
            ("Solver", {}, 3, 2),
            ("SolverCacheless", {}, 3, 2),
            ("SolverComposite", {}, 3, 2),
            ("SolverHybrid", {}, 3, 2),
            ("SolverHybrid", {"exact_false": True, "approx": True, "tag": "exact=False"}, 3, 2),
            ("SolverReplacement", {}, 3, 2),
            ("SolverVSA", {"approx": True}, 3, 2),
            ("Solver", {"reuse": True, "tag": "reuse"}, 2, 2),
        ]
        xs = ["none", "x==6", "y<u2", "y>u6"]
    import time

    t0 = time.time()
    exprspace.run_e1(rep, "mc.checks.c10:monitor", cfgs)
    rep.extra["seconds_part_A"] = round(time.time() - t0, 1)
    rep.extra["bool_states"] = rep.counts.get("bool_states", 0)
    for res in pmap(_fp_truth_job, ["FLOAT", "DOUBLE"]):
        rep.merge(res)
    for cls, cfg, depth, max_adds in plan:
        pres = prefixes(depth, max_adds, PREFIX_EVENTS)
        chunks = [pres[i::64] for i in range(64)]
        items = [(cls, cfg, ch, xs) for ch in chunks if ch]
        for res in pmap(_solver_job, items):
            rep.merge(res)
        rep.extra.setdefault("plan", []).append(f"{cls}{cfg}: {len(pres)} prefix histories x 2 orders, {time.time() - t0:.0f}s since start")
    rep.counts["states"] = rep.counts.get("states", 0) + rep.counts.get("solver_states", 0)
    rep.assumptions = ["a False answer is never checked", "frontends: a raised ClaripyError other than UnsatError counts as a failure of the call (C11-C13 also see it)"]
    return rep.finish()


def replay(path: str) -> int:
    data = json.load(open(path))
    bad = 0
    for c in data["cases"]:
        rp = c.get("replay") or {}
        if rp.get("kind") == "e1":
            sp = exprspace.Space(rp["w"])
            tr = exprspace.find_transition(sp, rp["key"])
            if tr is None:
                print("replay: transition not found", rp["key"])
                continue
            p = Part()
            monitor(sp, tr, p, {})
            hit = bool(p.failures)
        elif rp.get("kind") == "fp":
            res = _fp_truth_job(rp["sort"])
            hit = any(f["case"] == c["case"] for f in res["failures"])
        elif rp.get("kind") == "e4":
            chunk = [tuple(tuple(e) for e in rp["prefix"])]
            xs = sorted({rp["ev"][2]} | {"none"})
            res = _solver_job((rp["cls"], rp["cfg"], chunk, xs))
            hit = bool(res["failures"])
        else:
            continue
        if hit:
            bad += 1
            print(f"VIOLATION property={PID} replay={path}")
            print("  ", c["case"])
        else:
            print("replay:", c["case"], "holds now")
    return 1 if bad else 0
