"""C04 – building and folding well-typed expressions never crashes.

Every construction is executed in a worker whose address space is limited (RLIMIT_AS) and under a
CPU-time alarm; the only acceptable outcomes are an AST (or a Python bool/int for the documented concrete
shortcuts) or one of the documented claripy errors:
  * ClaripyZeroDivisionError when the divisor is the constant 0,
  * ClaripyOperationError("can't reverse ...") for Reverse of a non-byte width,
  * ClaripyOperationError for an unsupported float sort.
Anything else – MemoryError, re.error, AssertionError, TypeError, RecursionError, the truthiness
ClaripyOperationError, a time-out – is a failure.

Enumerated: (1) every E1 transition at widths 1-3 (thorough 1-4); (2) a boundary-constant driver at
widths 8, 64, 65, 128: every binary/unary/extract/extend/rotate operation over boundary constants
(0, 1, w-1, w, w+1, 2^62, 2^63, 2^64-1, 2^w-1 ...) in concrete, symbolic-left, symbolic-right and
nested-shift forms; (3) every FP operation x rounding mode over the boundary alphabet of both sorts;
(4) every string operation over strings built from metacharacters, escapes, NUL and non-BMP characters.
"""

from __future__ import annotations

import itertools
import json
import resource
import signal

import claripy
from claripy.errors import ClaripyOperationError, ClaripyZeroDivisionError

from .. import exprspace, fpref, valspace
from ..common import Part, Report, pmap
from ..exprspace import site_sig
from ..refsem import show

PID = "C04"
AS_LIMIT = 3 << 30
ALARM_S = 8


class _Timeout(BaseException):
    pass


def _on_alarm(signum, frame):
    raise _Timeout()


def _limits():
    try:
        resource.setrlimit(resource.RLIMIT_AS, (AS_LIMIT, AS_LIMIT))
    except (ValueError, OSError):
        pass
    # CPU time of this process, not wall time: a loaded machine must not produce time-outs
    signal.signal(signal.SIGVTALRM, _on_alarm)


def guarded(thunk):
    """-> ('ok', result) | ('exc', exception) | ('timeout', None)"""
    signal.setitimer(signal.ITIMER_VIRTUAL, ALARM_S)
    try:
        r = thunk()
        return "ok", r
    except _Timeout:
        return "timeout", None
    except BaseException as e:  # noqa: BLE001
        return "exc", e
    finally:
        signal.setitimer(signal.ITIMER_VIRTUAL, 0)


def classify(kind, val, zero_div_ok=False, reverse_nonbyte=False):
    """None if acceptable, else a short reason"""
    if kind == "ok":
        if val is NotImplemented:
            return "returned-NotImplemented"
        return None
    if kind == "timeout":
        return f"cpu-timeout>{ALARM_S}s"
    e = val
    if isinstance(e, ClaripyZeroDivisionError):
        return None if zero_div_ok else "ClaripyZeroDivisionError-with-nonzero-divisor"
    if isinstance(e, ClaripyOperationError):
        msg = str(e)
        if reverse_nonbyte and "reverse" in msg:
            return None
        if "not a valid FSort" in msg or "unrecognized FSort" in msg:
            return None
        if "truthiness" in msg:
            return "truthiness-ClaripyOperationError"
        return "ClaripyOperationError:" + msg[:40]
    return type(e).__name__


# ---------------------------------------------------------------------------------------------
# (1) E1 monitor
# ---------------------------------------------------------------------------------------------


def monitor(space, tr, part, opts):
    if not space.__dict__.get("_c04_limits"):
        _limits()
        space.__dict__["_c04_limits"] = True
    part.count("transitions")
    kind, val = guarded(tr.build)
    reason = classify(kind, val, zero_div_ok=space.divisor_is_zero(tr))
    if reason is not None:
        part.fail(f"e1:{reason}:{site_sig(tr)}", f"w={space.w}|{tr.key}", {"api": tr.api, "error": str(val)[:200]}, {"kind": "e1", "w": space.w, "key": tr.key})
        return None
    if kind != "ok":
        part.count("documented_errors")
        return None
    if isinstance(val, claripy.ast.Base):
        part.sample({"w": space.w, "transition": tr.key}, limit=1)
        return val
    return None


# ---------------------------------------------------------------------------------------------
# (2) wide boundary-constant driver
# ---------------------------------------------------------------------------------------------

BIN_OPS = {
    "add": lambda a, b: a + b,
    "sub": lambda a, b: a - b,
    "mul": lambda a, b: a * b,
    "udiv": lambda a, b: a // b,
    "truediv": lambda a, b: a / b,
    "urem": lambda a, b: a % b,
    "sdiv": lambda a, b: claripy.SDiv(a, b),
    "smod": lambda a, b: claripy.SMod(a, b),
    "and": lambda a, b: a & b,
    "or": lambda a, b: a | b,
    "xor": lambda a, b: a ^ b,
    "shl": lambda a, b: a << b,
    "ashr": lambda a, b: a >> b,
    "lshr": lambda a, b: claripy.LShR(a, b),
    "rol": lambda a, b: claripy.RotateLeft(a, b),
    "ror": lambda a, b: claripy.RotateRight(a, b),
    "eq": lambda a, b: a == b,
    "ne": lambda a, b: a != b,
    "ult": lambda a, b: claripy.ULT(a, b),
    "ule": lambda a, b: claripy.ULE(a, b),
    "ugt": lambda a, b: claripy.UGT(a, b),
    "uge": lambda a, b: claripy.UGE(a, b),
    "slt": lambda a, b: claripy.SLT(a, b),
    "sle": lambda a, b: claripy.SLE(a, b),
    "sgt": lambda a, b: claripy.SGT(a, b),
    "sge": lambda a, b: claripy.SGE(a, b),
    "concat": lambda a, b: claripy.Concat(a, b),
}
DIVS = {"udiv", "truediv", "urem", "sdiv", "smod"}
SHIFTS = ["shl", "ashr", "lshr", "rol", "ror"]


def _wide_job(item):
    w, opnames = item
    _limits()
    part = Part()
    x = claripy.BVS(f"wx{w}", w, explicit_name=True)
    y = claripy.BVS(f"wy{w}", w, explicit_name=True)
    c = claripy.BoolS("wc", explicit_name=True)
    consts = valspace.bv_boundaries(w)

    def run(label, thunk, zero_div_ok=False, reverse_nonbyte=False):
        part.count("transitions")
        part.count("wide_constructions")
        kind, val = guarded(thunk)
        reason = classify(kind, val, zero_div_ok=zero_div_ok, reverse_nonbyte=reverse_nonbyte)
        if reason is not None:
            part.fail(f"wide:{reason}:{label.split('|')[1]}", f"w={w}|{label}", {"error": str(val)[:200]}, {"kind": "wide", "w": w, "label": label})
            return None
        return val if kind == "ok" else None

    for opn in opnames:
        f = BIN_OPS[opn]
        for a in consts:
            A = claripy.BVV(a, w)
            for b in consts:
                B = claripy.BVV(b, w)
                zd = opn in DIVS and b == 0
                run(f"cc|{opn}|{a}|{b}", lambda: f(A, B), zero_div_ok=zd)
                run(f"ci|{opn}|{a}|int{b}", lambda: f(A, b), zero_div_ok=zd)
            # symbolic on one side
            run(f"sc|{opn}|x|{a}", lambda: f(x, A), zero_div_ok=(opn in DIVS and a == 0))
            run(f"cs|{opn}|{a}|x", lambda: f(A, x))
            run(f"si|{opn}|x|int{a}", lambda: f(x, a), zero_div_ok=(opn in DIVS and a == 0))
            if opn in SHIFTS:
                # nested shifts (shift-merging rewrites) and shifts of extended / extracted values
                for b in consts:
                    B = claripy.BVV(b, w)
                    for opn2 in ("shl", "lshr", "ashr"):
                        g = BIN_OPS[opn2]
                        inner = run(f"sc|{opn2}|x|{a}", lambda: g(x, A))
                        if inner is not None:
                            run(f"nest|{opn}|{opn2}(x,{a})|{b}", lambda: f(inner, B))
                iff = run(f"if|If|c|x|{a}", lambda: claripy.If(c, x, A))
                if iff is not None:
                    run(f"shif|{opn}|If(c,x,{a})|y", lambda: f(iff, y))
                    run(f"shif2|{opn}|y|If(c,x,{a})", lambda: f(y, iff))
    if "unary" in opnames or opnames == list(BIN_OPS):
        pass
    return part.dump()


def _wide_unary_job(w):
    _limits()
    part = Part()
    x = claripy.BVS(f"wx{w}", w, explicit_name=True)
    c = claripy.BoolS("wc", explicit_name=True)
    consts = valspace.bv_boundaries(w)

    def run(label, thunk, **kw):
        part.count("transitions")
        part.count("wide_constructions")
        kind, val = guarded(thunk)
        reason = classify(kind, val, **kw)
        if reason is not None:
            part.fail(f"wide:{reason}:{label.split('|')[1]}", f"w={w}|{label}", {"error": str(val)[:200]}, {"kind": "wide1", "w": w, "label": label})
            return None
        return val if kind == "ok" else None

    operands = [(f"{a}", claripy.BVV(a, w)) for a in consts] + [("x", x), ("If(c,x,1)", claripy.If(c, x, claripy.BVV(1, w))), ("x+1", x + 1)]
    for lab, A in operands:
        run(f"u|neg|{lab}", lambda: -A)
        run(f"u|inv|{lab}", lambda: ~A)
        run(f"u|Reverse|{lab}", lambda: claripy.Reverse(A), reverse_nonbyte=(w % 8 != 0))
        run(f"u|reversed|{lab}", lambda: A.reversed, reverse_nonbyte=(w % 8 != 0))
        for k in (0, 1, 7, 8, 63, 64, 65, w - 1, w, 1024):
            run(f"u|ZeroExt{k}|{lab}", lambda: claripy.ZeroExt(k, A))
            run(f"u|SignExt{k}|{lab}", lambda: claripy.SignExt(k, A))
        for hi, lo in ((w - 1, 0), (w - 1, w - 1), (0, 0), (w - 1, 1), (w - 2, 0), (min(63, w - 1), min(8, w - 1)), (w // 2, w // 2 - 1)):
            if 0 <= lo <= hi < w:
                run(f"u|Extract{hi}:{lo}|{lab}", lambda: claripy.Extract(hi, lo, A))
                run(f"u|slice{hi}:{lo}|{lab}", lambda: A[hi:lo])
        run(f"u|chop8|{lab}", lambda: A.chop(8) if w % 8 == 0 else A.chop(1))
        if w % 8 == 0:
            run(f"u|get_byte0|{lab}", lambda: A.get_byte(0))
            run(f"u|get_bytes|{lab}", lambda: A.get_bytes(0, w // 8))
        run(f"u|If|{lab}", lambda: claripy.If(c, A, A + 1))
        run(f"u|ite_burrow|{lab}", lambda: claripy.burrow_ite(claripy.If(c, A + 1, A + 2)))
        run(f"u|ite_excavate|{lab}", lambda: claripy.excavate_ite(claripy.If(c, A, x) + 1))
        run(f"u|concat3|{lab}", lambda: claripy.Concat(A, A, A))
        run(f"u|val_to_fp|{lab}", lambda: A.val_to_fp(claripy.FSORT_DOUBLE))
        run(f"u|val_to_fp_unsigned|{lab}", lambda: A.val_to_fp(claripy.FSORT_FLOAT, signed=False))
        if w in (32, 64):
            run(f"u|raw_to_fp|{lab}", lambda: A.raw_to_fp())
    return part.dump()


# ---------------------------------------------------------------------------------------------
# (3) FP driver
# ---------------------------------------------------------------------------------------------


def _fp_job(item):
    sname, rmname, size = item
    _limits()
    part = Part()
    S = fpref.FLOAT if sname == "FLOAT" else fpref.DOUBLE
    T = fpref.DOUBLE if sname == "FLOAT" else fpref.FLOAT
    cs, ct = valspace.CL_SORT[S.name], valspace.CL_SORT[T.name]
    rm = valspace.CL_RM[rmname]
    A = valspace.fp_alphabet(S, size)
    sym = claripy.FPS(f"cf_{sname}", cs, explicit_name=True)

    def run(label, thunk):
        part.count("transitions")
        part.count("fp_constructions")
        kind, val = guarded(thunk)
        reason = classify(kind, val)
        if reason is not None:
            part.fail(f"fp:{reason}:{label.split('|')[0]}", f"{sname}|{rmname}|{label}", {"error": str(val)[:200]}, {"kind": "fp", "sort": sname, "rm": rmname, "label": label})

    for a in A:
        fa = valspace.fpv(a, S)
        la = fpref.show(a, S)
        for nm, f in (("fpSqrt", lambda: claripy.fpSqrt(rm, fa)), ("fpToFP", lambda: claripy.fpToFP(rm, fa, ct)), ("to_fp", lambda: fa.to_fp(ct, rm))):
            run(f"{nm}|{la}", f)
        for n in (8, 32, 64):
            run(f"fpToSBV{n}|{la}", lambda: claripy.fpToSBV(rm, fa, n))
            run(f"fpToUBV{n}|{la}", lambda: claripy.fpToUBV(rm, fa, n))
            run(f"val_to_bv{n}|{la}", lambda: fa.val_to_bv(n, True, rm))
        if rmname == "RNE":
            for nm, f in (
                ("fpAbs", lambda: claripy.fpAbs(fa)),
                ("fpNeg", lambda: claripy.fpNeg(fa)),
                ("fpIsNaN", lambda: claripy.fpIsNaN(fa)),
                ("fpIsInf", lambda: claripy.fpIsInf(fa)),
                ("fpToIEEEBV", lambda: claripy.fpToIEEEBV(fa)),
                ("raw_to_bv", lambda: fa.raw_to_bv()),
                ("If", lambda: claripy.If(claripy.BoolS("cf_c", explicit_name=True), fa, sym)),
                ("abs()", lambda: abs(fa)),
                ("neg()", lambda: -fa),
            ):
                run(f"{nm}|{la}", f)
        for b in A:
            fb = valspace.fpv(b, S)
            lb = fpref.show(b, S)
            for nm, f in (
                ("fpAdd", lambda: claripy.fpAdd(rm, fa, fb)),
                ("fpSub", lambda: claripy.fpSub(rm, fa, fb)),
                ("fpMul", lambda: claripy.fpMul(rm, fa, fb)),
                ("fpDiv", lambda: claripy.fpDiv(rm, fa, fb)),
            ):
                run(f"{nm}|{la}|{lb}", f)
            if rmname == "RNE":
                for nm, f in (
                    ("fpEQ", lambda: claripy.fpEQ(fa, fb)),
                    ("fpNEQ", lambda: claripy.fpNEQ(fa, fb)),
                    ("fpLT", lambda: claripy.fpLT(fa, fb)),
                    ("fpLEQ", lambda: claripy.fpLEQ(fa, fb)),
                    ("fpGT", lambda: claripy.fpGT(fa, fb)),
                    ("fpGEQ", lambda: claripy.fpGEQ(fa, fb)),
                    ("+", lambda: fa + fb),
                    ("/", lambda: fa / fb),
                    ("==", lambda: fa == fb),
                    ("sym+", lambda: sym + fb),
                    ("sym/", lambda: fa / sym),
                ):
                    run(f"{nm}|{la}|{lb}", f)
    # BV -> FP
    for w in (8, 32, 64):
        for v in valspace.bv_boundaries(w):
            bv = claripy.BVV(v, w)
            run(f"fpToFP_signed|{v}#{w}", lambda: claripy.fpToFP(rm, bv, cs))
            run(f"fpToFPUnsigned|{v}#{w}", lambda: claripy.fpToFPUnsigned(rm, bv, cs))
    if rmname == "RNE":
        for v in valspace.bv_boundaries(S.width):
            bv = claripy.BVV(v, S.width)
            run(f"fpToFP_raw|{v}", lambda: claripy.fpToFP(bv, cs))
            run(f"raw_to_fp|{v}", lambda: bv.raw_to_fp())
        for v in (0.0, -0.0, 1.5, float("inf"), float("-inf"), float("nan"), 1e308, 5e-324, 3.4028235e38, 1e39, -1e39, 1, -1, 2**64, 2**1023):
            run(f"FPV|{v!r}", lambda: claripy.FPV(v, cs))
        for bad_size in (16, 128, 80):
            part.count("transitions")
            kind, val = guarded(lambda: claripy.BVV(1, bad_size).raw_to_fp())
            reason = classify(kind, val)
            if reason is not None:
                part.fail(f"fp:{reason}:raw_to_fp_badsort", f"{sname}|raw_to_fp|{bad_size}", {"error": str(val)[:200]})
    return part.dump()


# ---------------------------------------------------------------------------------------------
# (4) string driver
# ---------------------------------------------------------------------------------------------


def _str_job(item):
    chunk, size = item
    _limits()
    part = Part()
    strs = valspace.string_alphabet(size)
    sym = claripy.StringS("cs_s", explicit_name=True)
    idxs = [0, 1, 2, 3, (1 << 63), (1 << 64) - 1, (1 << 63) - 1]

    def run(label, thunk):
        part.count("transitions")
        part.count("string_constructions")
        kind, val = guarded(thunk)
        reason = classify(kind, val)
        if reason is not None:
            part.fail(f"str:{reason}:{label.split('|')[0]}", label, {"error": str(val)[:200]}, {"kind": "str", "label": label})

    for s in chunk:
        S = claripy.StringV(s)
        ls = repr(s)
        run(f"StringV|{ls}", lambda: claripy.StringV(s))
        for nm, f in (("StrLen", lambda: claripy.StrLen(S)), ("StrToInt", lambda: claripy.StrToInt(S)), ("StrIsDigit", lambda: claripy.StrIsDigit(S)), ("toInt", lambda: S.toInt())):
            run(f"{nm}|{ls}", f)
        for i in idxs:
            I = claripy.BVV(i, 64)
            for j in idxs[:5]:
                J = claripy.BVV(j, 64)
                run(f"StrSubstr|{i}|{j}|{ls}", lambda: claripy.StrSubstr(I, J, S))
        for t in strs:
            T = claripy.StringV(t)
            lt = repr(t)
            for nm, f in (
                ("StrConcat", lambda: claripy.StrConcat(S, T)),
                ("+", lambda: S + T),
                ("StrContains", lambda: claripy.StrContains(S, T)),
                ("StrPrefixOf", lambda: claripy.StrPrefixOf(T, S)),
                ("StrSuffixOf", lambda: claripy.StrSuffixOf(T, S)),
                ("==", lambda: S == T),
                ("!=", lambda: S != T),
                ("symPrefixOf", lambda: claripy.StrPrefixOf(T, sym)),
                ("symContains", lambda: claripy.StrContains(sym, T)),
            ):
                run(f"{nm}|{ls}|{lt}", f)
            for i in idxs[:4] + idxs[-2:]:
                I = claripy.BVV(i, 64)
                run(f"StrIndexOf|{ls}|{lt}|{i}", lambda: claripy.StrIndexOf(S, T, I))
                run(f"indexOf|{ls}|{lt}|{i}", lambda: S.indexOf(T, I))
            for u in ("", "a", "(", "\\", "$1", "\\1", "\\g<0>"):
                U = claripy.StringV(u)
                run(f"StrReplace|{ls}|{lt}|{u!r}", lambda: claripy.StrReplace(S, T, U))
                run(f"strReplace|{ls}|{lt}|{u!r}", lambda: S.strReplace(T, U))
    return part.dump()


def _nary_job(item):
    """And / Or with 3 and 4 conjuncts mixing comparisons that share operands with plain Boolean variables"""
    w, opn = item
    _limits()
    part = Part()
    x = claripy.BVS(f"wx{w}", w, explicit_name=True)
    y = claripy.BVS(f"wy{w}", w, explicit_name=True)
    c = claripy.BoolS("wc", explicit_name=True)
    d = claripy.BoolS("wd", explicit_name=True)
    pool = [("x==1", x == 1), ("x!=2", x != 2), ("x<y", claripy.ULT(x, y)), ("x==y", x == y), ("c", c), ("!c", claripy.Not(c)), ("d", d), ("x<=3", claripy.ULE(x, 3)), ("x>s1", claripy.SGT(x, 1)), ("T", claripy.true()), ("F", claripy.false()), ("x!=1", x != 1), ("y==1", y == 1)]
    f = claripy.And if opn == "And" else claripy.Or
    for n in (3, 4):
        src = pool if n == 3 else pool[:9]
        for tup in itertools.product(src, repeat=n):
            part.count("transitions")
            part.count("nary_constructions")
            kind, val = guarded(lambda: f(*[t[1] for t in tup]))
            reason = classify(kind, val)
            if reason is not None:
                label = f"{opn}(" + ",".join(t[0] for t in tup) + ")"
                part.fail(f"nary:{reason}:{opn}{n}", f"w={w}|{label}", {"error": str(val)[:200]}, {"kind": "nary", "w": w, "op": opn})
    return part.dump()


def _int_to_str_job(_):
    _limits()
    part = Part()
    for w in (8, 32, 64):
        for v in valspace.bv_boundaries(w):
            part.count("transitions")
            part.count("string_constructions")
            kind, val = guarded(lambda: claripy.IntToStr(claripy.BVV(v, w)))
            reason = classify(kind, val)
            if reason is not None:
                part.fail(f"str:{reason}:IntToStr", f"IntToStr|{v}#{w}", {"error": str(val)[:200]})
    return part.dump()


# ---------------------------------------------------------------------------------------------


def run(tier: str) -> int:
    rep = Report(
        PID,
        tier,
        "model_checking",
        rule="every construction runs under RLIMIT_AS=3GiB and an 8 s CPU-time alarm; acceptable = an AST or a documented "
        "claripy error (concrete division by zero, Reverse of a non-byte width, unsupported float sort). Enumerated: "
        "all E1 transitions; wide boundary driver (w in 8,64,65,128: 27 binary ops x boundary constants^2 in concrete / "
        "python-int / symbolic-left / symbolic-right / nested-shift / If forms, unary + extract + extend + reverse + "
        "conversion forms); FP driver (both sorts x 5 rounding modes x boundary alphabet^2 x arithmetic, conversions "
        "to/from BV at 8/32/64 bits, comparisons, classification, FPV construction); string driver (alphabet of "
        "metacharacters / escapes / NUL / non-BMP strings^2 x 11 operations, indices up to 2^64-1)",
    )
    if tier == "quick":
        cfgs = [dict(w=1, depth=2), dict(w=2, depth=2), dict(w=3, depth=2, full=False)]
        widths = [8, 64, 65]
        fpsize, strsize = "small", "small"
    else:
        cfgs = [dict(w=1, depth=3), dict(w=2, depth=3), dict(w=3, depth=2), dict(w=4, depth=2, full=False)]
        widths = [8, 16, 64, 65, 128]
        fpsize, strsize = "full", "full"
    exprspace.run_e1(rep, "mc.checks.c04:monitor", cfgs)
    ops = list(BIN_OPS)
    items = [(w, [o]) for w in widths for o in ops]
    for res in pmap(_wide_job, items):
        rep.merge(res)
    for res in pmap(_wide_unary_job, widths):
        rep.merge(res)
    for res in pmap(_fp_job, [(s, rm, fpsize) for s in ("FLOAT", "DOUBLE") for rm in fpref.RMS]):
        rep.merge(res)
    strs = valspace.string_alphabet(strsize)
    chunks = [strs[i::32] for i in range(32)]
    for res in pmap(_str_job, [(c, strsize) for c in chunks if c]):
        rep.merge(res)
    for res in pmap(_int_to_str_job, [0]):
        rep.merge(res)
    for res in pmap(_nary_job, [(w, o) for w in (8, 64) for o in ("And", "Or")]):
        rep.merge(res)
    rep.extra["alphabet_sizes"] = {"fp_per_sort": len(valspace.fp_alphabet(fpref.FLOAT, fpsize)), "strings": len(strs), "wide_consts": {w: len(valspace.bv_boundaries(w)) for w in widths}}
    rep.assumptions = [
        "memory exhaustion / hangs are observable only on the enumerated inputs (limit: RLIMIT_AS 3 GiB, 8 s)",
        "operations on differently-sized or differently-sorted operands are ill-typed and not enumerated",
    ]
    return rep.finish()


def replay(path: str) -> int:
    data = json.load(open(path))
    _limits()
    bad = 0
    for c in data["cases"]:
        rp = c.get("replay") or {}
        p = Part()
        if rp.get("kind") == "e1":
            sp = exprspace.Space(rp["w"])
            tr = exprspace.find_transition(sp, rp["key"])
            if tr is None:
                print("replay: transition not found", rp["key"])
                continue
            monitor(sp, tr, p, {})
            hit = bool(p.failures)
        elif rp.get("kind") == "wide":
            opn = rp["label"].split("|")[1]
            opn = opn if opn in BIN_OPS else rp["label"].split("|")[1]
            res = _wide_job((rp["w"], [o for o in BIN_OPS if o == opn] or list(BIN_OPS)))
            hit = any(f["case"] == c["case"] for f in res["failures"])
        elif rp.get("kind") == "wide1":
            res = _wide_unary_job(rp["w"])
            hit = any(f["case"] == c["case"] for f in res["failures"])
        elif rp.get("kind") == "fp":
            res = _fp_job((rp["sort"], rp["rm"], "full"))
            hit = any(f["case"] == c["case"] for f in res["failures"])
        elif rp.get("kind") == "nary":
            res = _nary_job((rp["w"], rp["op"]))
            hit = any(f["case"] == c["case"] for f in res["failures"])
        elif rp.get("kind") == "str":
            res = _str_job((valspace.string_alphabet("full"), "full"))
            hit = any(f["case"] == c["case"] for f in res["failures"])
        else:
            continue
        if hit:
            bad += 1
            print(f"VIOLATION property={PID} replay={path}")
            print("  ", c["case"])
        else:
            print("replay:", c["case"], "holds now")
    return 1 if bad else 0
