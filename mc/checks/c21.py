"""C21 – strided-interval transfer functions are sound.

E3: states = all well-formed SIs of width w plus (closure) the forms the operations themselves
produce; every unary op on every state, every binary op / comparison on every ordered pair;
oracle = gamma(result) must contain op(a, b) for ALL a in gamma(A), b in gamma(B).
"""

from __future__ import annotations

import json

from .. import sispace as S
from ..common import Part, Report, pmap

PID = "C21"

_STATE = {}  # set by the parent before forking: {"all": [keys], "new": set(keys) or None, "w": w}


def _check_bin(part, name, fa, fc, A, B, gA, gB, w, newkeys):
    part.count("transitions")
    case = f"{name}|{S.key(A)}|{S.key(B)}"
    try:
        Rr = fa(A, B)
    except Exception as e:
        part.fail(f"{name}:raise:{type(e).__name__}", case, str(e)[:200])
        return
    if Rr is NotImplemented or not hasattr(Rr, "is_empty"):
        part.fail(f"{name}:badresult", case, repr(Rr)[:100])
        return
    if S.key(A) != case.split("|")[1] or S.key(B) != case.split("|")[2]:
        part.fail(f"{name}:operand-mutated", case, {"A": S.key(A), "B": S.key(B)})
        return
    if name in S.DIV_LIKE:
        conc = {fc(a, b, w) for a in gA for b in gB if b != 0}
    else:
        conc = {fc(a, b, w) for a in gA for b in gB}
    part.count("concrete_evaluations", len(gA) * len(gB))
    if Rr.bits != w:
        part.fail(f"{name}:width", case, f"result has {Rr.bits} bits")
        return
    if Rr._reversed:
        Rr = Rr._reverse()
    gR = S.gamma(Rr)
    missing = conc - gR
    if missing:
        part.fail(name, case, {"result": S.key(Rr), "missing": sorted(missing)[:6]})
    newkeys.add(S.key(Rr))


def _check_cmp(part, name, fa, fc, A, B, gA, gB, w):
    part.count("transitions")
    case = f"{name}|{S.key(A)}|{S.key(B)}"
    try:
        Rr = fa(A, B)
    except Exception as e:
        part.fail(f"{name}:raise:{type(e).__name__}", case, str(e)[:200])
        return
    try:
        vals = S.bool_values(Rr)
    except Exception:
        part.fail(f"{name}:badresult", case, repr(Rr)[:100])
        return
    conc = {fc(a, b, w) for a in gA for b in gB}
    part.count("concrete_evaluations", len(gA) * len(gB))
    if not conc <= vals:
        part.fail(name, case, {"result": sorted(vals), "occurring": sorted(conc)})


def _work(item):
    w, op, chunk = item
    st = _STATE
    allk = st["all"]
    new = st["new"]
    part = Part()
    newkeys = set()
    sis = {k: S.from_key(k) for k in allk}
    gam = {k: S.gamma(sis[k]) for k in allk}
    for ka in chunk:
        A = sis[ka]
        if op == "unary":
            if new is not None and ka not in new:
                continue
            for name, (fa, fc) in S.UN_OPS.items():
                part.count("transitions")
                case = f"{name}|{ka}"
                try:
                    Rr = fa(A)
                except Exception as e:
                    part.fail(f"{name}:raise:{type(e).__name__}", case, str(e)[:200])
                    continue
                conc = {fc(a, w) for a in gam[ka]}
                gR = S.gamma(Rr)
                if Rr.bits != w or conc - gR:
                    part.fail(name, case, {"result": S.key(Rr), "missing": sorted(conc - gR)[:6]})
                newkeys.add(S.key(Rr))
            for name, fa, fc, rw in S.unary_param_ops(w):
                part.count("transitions")
                case = f"{name}|{ka}"
                try:
                    Rr = fa(A)
                except Exception as e:
                    part.fail(f"{name.rstrip('0123456789:')}:raise:{type(e).__name__}", case, str(e)[:200])
                    continue
                conc = {fc(a) for a in gam[ka]}
                if Rr._reversed:
                    Rr = Rr._reverse()
                gR = S.gamma(Rr)
                if Rr.bits != rw or conc - gR:
                    part.fail(name.rstrip("0123456789:"), case, {"result": S.key(Rr), "missing": sorted(conc - gR)[:6]})
            continue
        for kb in allk:
            if new is not None and ka not in new and kb not in new:
                continue
            B = sis[kb]
            if op in S.BIN_OPS:
                fa, fc = S.BIN_OPS[op]
                _check_bin(part, op, fa, fc, A, B, gam[ka], gam[kb], w, newkeys)
            elif op == "concat":
                part.count("transitions")
                case = f"concat|{ka}|{kb}"
                try:
                    Rr = A.concat(B)
                except Exception as e:
                    part.fail(f"concat:raise:{type(e).__name__}", case, str(e)[:200])
                    continue
                conc = {(a << w) | b for a in gam[ka] for b in gam[kb]}
                if S.key(A) != ka or S.key(B) != kb:
                    part.fail("concat:operand-mutated", case, {"A": S.key(A), "B": S.key(B)})
                    sis[ka], sis[kb] = S.from_key(ka), S.from_key(kb)
                    A = sis[ka]
                    continue
                if Rr._reversed:
                    Rr = Rr._reverse()
                if Rr.bits != 2 * w or conc - S.gamma(Rr):
                    part.fail("concat", case, {"result": S.key(Rr), "missing": sorted(conc - S.gamma(Rr))[:6]})
            else:
                fa, fc = S.CMP_OPS[op]
                _check_cmp(part, op, fa, fc, A, B, gam[ka], gam[kb], w)
    out = part.dump()
    out["newkeys"] = newkeys
    return out


def _phase(rep, w, allk, new):
    _STATE.clear()
    _STATE.update(all=allk, new=new, w=w)
    ops = list(S.BIN_OPS) + list(S.CMP_OPS) + ["concat", "unary"]
    nchunks = 8
    items = []
    src = allk
    for op in ops:
        for i in range(nchunks):
            items.append((w, op, src[i::nchunks]))
    produced = set()
    for res in pmap(_work, items):
        produced |= res.pop("newkeys", set())
        rep.merge(res)
    return produced


def run(tier: str) -> int:
    rep = Report(
        PID,
        tier,
        "model_checking",
        rule="E3: states = every well-formed strided interval of width w (all lower bounds, strides, counts, wrapping "
        "forms, TOP) plus the result forms produced by the operations (closure rounds); transitions = every unary op "
        "on every state and every binary op / comparison on every ordered pair; oracle = brute-force concretisation: "
        "op(a,b) in gamma(result) for all members a, b",
    )
    cfg = [(1, 0), (2, 0), (3, 0)] if tier == "quick" else [(1, 1), (2, 1), (3, 1), (4, 0)]
    nstates = 0
    for w, rounds in cfg:
        seeds = [S.key(s) for s in S.seeds(w)]
        allk = list(seeds)
        known = set(allk)
        produced = _phase(rep, w, allk, None)
        for _ in range(rounds):
            new = sorted(k for k in produced if k not in known and k.startswith(f"{w}:") and not k.endswith("EMPTY"))
            if not new:
                break
            # bound the closure: results with strides beyond 2^w keep appearing (DESIGN §1.2b)
            cap = 400 if tier == "quick" else 1500
            if len(new) > cap:
                rep.exhaustive = False
                rep.extra.setdefault("caps", []).append(f"w={w}: closure round kept {cap} of {len(new)} new states")
                new = new[:cap]
            allk = allk + new
            known |= set(new)
            produced = _phase(rep, w, allk, set(new))
            rep.count("closure_states", len(new))
        nstates += len(allk)
        rep.sample({"w": w, "seed_states": len(seeds), "states_after_closure": len(allk), "example": allk[len(allk) // 2]})
    rep.counts["states"] = nstates
    rep.assumptions = [
        "gamma(si) = {lb + k*stride mod 2^w | k*stride <= (ub-lb) mod 2^w} (C22 checks that eval/min/max agree with it)",
        "division/remainder by 0 and reversed (non-integer) intervals exempt, as the property states",
    ]
    return rep.finish()


def replay(path: str) -> int:
    data = json.load(open(path))
    bad = 0
    for c in data["cases"]:
        parts = c["case"].split("|")
        op = parts[0]
        p = Part()
        if len(parts) == 3 and op in S.BIN_OPS:
            A, B = S.from_key(parts[1]), S.from_key(parts[2])
            _check_bin(p, op, *S.BIN_OPS[op], A, B, S.gamma(A), S.gamma(B), A.bits, set())
        elif len(parts) == 3 and op in S.CMP_OPS:
            A, B = S.from_key(parts[1]), S.from_key(parts[2])
            _check_cmp(p, op, *S.CMP_OPS[op], A, B, S.gamma(A), S.gamma(B), A.bits)
        else:
            print("replay: unsupported case", c["case"])
            continue
        if p.failures:
            bad += 1
            print(f"VIOLATION property={PID} replay={path}")
            print("  ", json.dumps(p.failures[0], default=str)[:400])
        else:
            print("replay:", c["case"], "holds now")
    return 1 if bad else 0
