"""C26 – values extracted from models are values the expression actually takes.

One solver per *pinning* constraint set, so that the feasible set of every queried expression is known by
construction; every value returned by eval / batch_eval / min / max must be a member (floats compared by
bit pattern, NaN by NaN-ness; strings by code points).  Enumerated:
  BV    widths 1, 8, 64, 65, 128, 256 x boundary values: x == v, Or(x == v1, x == v2), lo <= x <= hi ranges;
        queries on x, x + 1, ~x, ZeroExt, Extract, Concat(x, x) with n in {1, 3, 300};
  FP    both sorts x every pattern of the FP boundary alphabet: fpToIEEEBV(f) == bits (pins the exact
        pattern, incl. -0, subnormals, infinities) and f == v (IEEE equality: +-0 both feasible, NaN unsat);
        queries (eval only: min / max are bitvector queries) on f, fpNeg(f), fpAbs(f), fpToIEEEBV(f);
  str   every string of the string alphabet: s == StringV(t); queries on s, s + s, StrLen(s), StrSubstr;
on Solver, SolverCacheless, SolverComposite, SolverHybrid (strings: SolverStrings as well), each both
directly and after a branch() / cached second query.
"""

from __future__ import annotations

import itertools
import json
import math
import threading

import claripy
from claripy.errors import ClaripyError, UnsatError

from .. import fpref as F
from .. import strref as R
from .. import valspace as V
from ..common import Part, Report, pmap
from ..refsem import mask

PID = "C26"

BV_CLASSES = ["Solver", "SolverCacheless", "SolverComposite", "SolverHybrid"]
STR_CLASSES = ["SolverStrings", "Solver", "SolverCacheless"]


def mk(cls):
    return getattr(claripy, cls)()


def in_thread(fn):
    out = {}

    def body():
        try:
            out["r"] = fn()
        except BaseException as e:  # noqa: BLE001
            import traceback

            out["e"] = traceback.format_exc()[-600:]

    t = threading.Thread(target=body)
    t.start()
    t.join()
    return out


# ---------------------------------------------------------------------------------------------
# BV
# ---------------------------------------------------------------------------------------------


def bv_exprs(x, w):
    out = [("x", x, lambda v: v), ("x+1", x + 1, lambda v: (v + 1) & mask(w)), ("~x", ~x, lambda v: v ^ mask(w)), ("ZeroExt(8,x)", claripy.ZeroExt(8, x), lambda v: v)]
    out.append(("x[0:0]", x[0:0], lambda v: v & 1))
    out.append(("Concat(x,x)", claripy.Concat(x, x), lambda v: (v << w) | v))
    if w >= 8:
        out.append(("x[7:0]", x[7:0], lambda v: v & 0xFF))
        out.append(("SignExt(3,x)", claripy.SignExt(3, x), lambda v: (v | (mask(3) << w)) if v >> (w - 1) else v))
    return out


def _bv_job(item):
    w, cls, lo, step = item
    part = Part()
    vals = V.bv_boundaries(w) if w > 4 else list(range(1 << w))
    pins = []
    for v in vals:
        pins.append((f"x=={v}", lambda x, v=v: [x == v], {v}))
    for a, b in itertools.combinations(vals[:: max(1, len(vals) // 6)], 2):
        pins.append((f"x=={a}|x=={b}", lambda x, a=a, b=b: [claripy.Or(x == a, x == b)], {a, b}))
    for a in vals[:: max(1, len(vals) // 5)]:
        hi = min(a + 2, mask(w))
        pins.append((f"{a}<=x<={hi}", lambda x, a=a, hi=hi: [claripy.UGE(x, a), claripy.ULE(x, hi)], set(range(a, hi + 1))))
        pins.append((f"x=={a} via x+1", lambda x, a=a: [x + 1 == (a + 1) & mask(w)], {a}))
    for pi, (plabel, mkcons, feas) in enumerate(pins):
        if pi % step != lo:
            continue

        def run(mkcons=mkcons, feas=feas, plabel=plabel):
            x = claripy.BVS(f"m{w}", w, explicit_name=True)
            res = []
            for variant in ("direct", "branch", "cached"):
                s = mk(cls)
                for c in mkcons(x):
                    s.add(c)
                if variant == "branch":
                    s.satisfiable()
                    s = s.branch()
                for elabel, e, f in bv_exprs(x, w):
                    F_ = {f(v) for v in feas}
                    ew = e.length
                    for q, n in (("eval", 1), ("eval", 3), ("eval", 300), ("min", 0), ("max", 0), ("beval", 2)):
                        if variant == "cached" and q != "eval":
                            continue
                        try:
                            if q == "eval":
                                got = list(s.eval(e, n))
                                if variant == "cached":
                                    got += list(s.eval(e, n))
                            elif q == "beval":
                                rows = s.batch_eval([e, x], n)
                                got = [r[0] for r in rows]
                                bad = [r for r in rows if (r[1] & mask(w)) not in feas or (r[0] & mask(ew)) != f(r[1] & mask(w))]
                                if bad:
                                    res.append((f"{plabel}|{variant}|{elabel}|beval", "inconsistent-row", str(bad[:2])))
                            elif q == "min":
                                got = [s.min(e)]
                            else:
                                got = [s.max(e)]
                        except UnsatError:
                            res.append((f"{plabel}|{variant}|{elabel}|{q}{n}", "unsat-but-pinned", ""))
                            continue
                        except ClaripyError as ex:
                            res.append((f"{plabel}|{variant}|{elabel}|{q}{n}", "raised:" + type(ex).__name__, str(ex)[:100]))
                            continue
                        res.append(("count", None, None))
                        for g in got:
                            if not isinstance(g, int) or (g & mask(ew)) not in F_ or not (0 <= g <= mask(ew)):
                                res.append((f"{plabel}|{variant}|{elabel}|{q}{n}", "not-a-model-value", f"got {g!r}, feasible {sorted(F_)[:4]}"))
                                break
                        if q == "eval" and n >= len(F_) and len({g & mask(ew) for g in got}) != len(F_):
                            res.append((f"{plabel}|{variant}|{elabel}|{q}{n}", "incomplete", f"got {sorted(set(got))[:4]}, feasible {sorted(F_)[:4]}"))
            return res

        o = in_thread(run)
        if "e" in o:
            part.fail(f"bv:{cls}:raised", f"w={w}|{cls}|{plabel}", o["e"][-300:], {"kind": "bv", "item": [w, cls, lo, step]})
            continue
        for case, reason, detail in o["r"]:
            if reason is None:
                part.count("transitions")
                part.count("bv_queries")
                continue
            part.fail(f"bv:{cls}:{reason}", f"w={w}|{cls}|{case}", detail, {"kind": "bv", "item": [w, cls, lo, step]})
        part.sample({"w": w, "cls": cls, "pin": plabel}, limit=1)
    return part.dump()


# ---------------------------------------------------------------------------------------------
# FP
# ---------------------------------------------------------------------------------------------


def fbits(v, S):
    return F.bits_of_pyfloat(v, S)


def _fp_job(item):
    sname, cls, size = item
    S = F.FLOAT if sname == "FLOAT" else F.DOUBLE
    cs = V.CL_SORT[sname]
    part = Part()
    A = V.fp_alphabet(S, size)
    for a in A:
        la = F.show(a, S)
        for pin in ("bits", "eq"):

            def run(a=a, pin=pin):
                f = claripy.FPS(f"mf_{sname}", cs, explicit_name=True)
                res = []
                if pin == "bits":
                    cons = [claripy.fpToIEEEBV(f) == claripy.BVV(a, S.width)]
                    feas = {a} if not F.is_nan(a, S) else None  # fpToIEEEBV(NaN) is unspecified: any NaN
                else:
                    cons = [f == V.fpv(a, S)]
                    if F.is_nan(a, S):
                        feas = set()
                    elif F.is_zero(a, S):
                        feas = {F.zero(0, S), F.zero(1, S)}
                    else:
                        feas = {a}
                for variant in ("direct", "branch"):
                    s = mk(cls)
                    for c in cons:
                        s.add(c)
                    if variant == "branch":
                        try:
                            s.satisfiable()
                        except ClaripyError:
                            pass
                        s = s.branch()
                    exprs = [("f", f, lambda b: b, S), ("fpNeg(f)", claripy.fpNeg(f), lambda b: F.neg(b, S), S), ("fpAbs(f)", claripy.fpAbs(f), lambda b: F.fabs(b, S), S)]
                    for elabel, e, fn, RS in exprs:
                        for q, n in (("eval", 1), ("eval", 3)):  # min / max are bitvector queries: not asked of FP terms
                            try:
                                if q == "eval":
                                    got = list(s.eval(e, n))
                                elif q == "min":
                                    got = [s.min(e)]
                                else:
                                    got = [s.max(e)]
                            except UnsatError:
                                if feas:  # pinning the pattern of a NaN may be unsatisfiable (fpToIEEEBV(NaN) is unspecified)
                                    res.append((f"{pin}|{variant}|{elabel}|{q}{n}", "unsat-but-pinned", ""))
                                else:
                                    res.append(("count", None, None))
                                continue
                            except ClaripyError as ex:
                                if q in ("min", "max"):
                                    res.append(("declined", None, None))
                                    continue
                                res.append((f"{pin}|{variant}|{elabel}|{q}{n}", "raised:" + type(ex).__name__, str(ex)[:100]))
                                continue
                            res.append(("count", None, None))
                            for g in got:
                                if not isinstance(g, float):
                                    res.append((f"{pin}|{variant}|{elabel}|{q}{n}", "not-a-float", repr(g)))
                                    break
                                if feas is None:
                                    ok = g != g
                                elif not feas:
                                    ok = False
                                else:
                                    gb = fbits(g, RS)
                                    want = {fn(b) for b in feas}
                                    ok = gb in want and (S is F.DOUBLE or F.pyfloat_of_bits(gb, S) == g or g != g)
                                if not ok:
                                    res.append((f"{pin}|{variant}|{elabel}|{q}{n}", "not-a-model-value", f"got {g!r} ({fbits(g, RS):#x}), feasible {[hex(fn(b)) for b in sorted(feas or [])]}"))
                                    break
                    # the bit pattern read back through the model
                    try:
                        got = list(s.eval(claripy.fpToIEEEBV(f), 2))
                        res.append(("count", None, None))
                        if feas is not None:
                            if any(g not in feas for g in got) or (feas and not got):
                                res.append((f"{pin}|{variant}|fpToIEEEBV(f)|eval2", "not-a-model-value", f"got {[hex(g) for g in got]}, feasible {[hex(b) for b in sorted(feas)]}"))
                    except UnsatError:
                        if feas:
                            res.append((f"{pin}|{variant}|fpToIEEEBV(f)|eval2", "unsat-but-pinned", ""))
                    except ClaripyError as ex:
                        res.append((f"{pin}|{variant}|fpToIEEEBV(f)|eval2", "raised:" + type(ex).__name__, str(ex)[:100]))
                return res

            o = in_thread(run)
            if "e" in o:
                part.fail(f"fp:{cls}:raised", f"{sname}|{cls}|{la}|{pin}", o["e"][-300:], {"kind": "fp", "item": [sname, cls, size]})
                continue
            for case, reason, detail in o["r"]:
                if reason is None:
                    part.count("transitions")
                    part.count("fp_queries" if case == "count" else "fp_declined")
                    continue
                part.fail(f"fp:{cls}:{reason}", f"{sname}|{cls}|{la}|{case}", detail, {"kind": "fp", "item": [sname, cls, size]})
        part.sample({"sort": sname, "cls": cls, "pinned": la}, limit=1)
    return part.dump()


# ---------------------------------------------------------------------------------------------
# strings
# ---------------------------------------------------------------------------------------------


def _str_job(item):
    cls, chunk = item
    part = Part()
    for t in chunk:
        lt = repr(t)

        def run(t=t):
            s_ = claripy.StringS("ms", explicit_name=True)
            res = []
            for variant in ("direct", "branch"):
                s = mk(cls)
                s.add(s_ == claripy.StringV(t))
                if variant == "branch":
                    s.satisfiable()
                    s = s.branch()
                exprs = [("s", s_, t), ("s+s", s_ + s_, t + t), ("StrLen(s)", claripy.StrLen(s_), len(t)), ("StrSubstr(0,1,s)", claripy.StrSubstr(claripy.BVV(0, 64), claripy.BVV(1, 64), s_), R.substr(t, 0, 1))]
                for elabel, e, want in exprs:
                    for n in (1, 3):
                        try:
                            got = list(s.eval(e, n))
                        except UnsatError:
                            res.append((f"{variant}|{elabel}|eval{n}", "unsat-but-pinned", ""))
                            continue
                        except ClaripyError as ex:
                            res.append((f"{variant}|{elabel}|eval{n}", "raised:" + type(ex).__name__, str(ex)[:100]))
                            continue
                        res.append(("count", None, None))
                        if len(got) != 1 or got[0] != want:
                            res.append((f"{variant}|{elabel}|eval{n}", "not-a-model-value", f"got {got!r}, the only model value is {want!r}"))
            return res

        o = in_thread(run)
        if "e" in o:
            part.fail(f"str:{cls}:raised", f"{cls}|{lt}", o["e"][-300:], {"kind": "str", "cls": cls, "t": t})
            continue
        for case, reason, detail in o["r"]:
            if reason is None:
                part.count("transitions")
                part.count("string_queries")
                continue
            part.fail(f"str:{cls}:{reason}", f"{cls}|{lt}|{case}", detail, {"kind": "str", "cls": cls, "t": t})
        part.sample({"cls": cls, "pinned": lt}, limit=1)
    return part.dump()


def run(tier: str) -> int:
    rep = Report(
        PID,
        tier,
        "exploration",
        rule="one solver per pinning constraint set (feasible set known by construction): BV widths x boundary values x "
        "{equality, 2-value disjunction, short range, equality through x+1} x 8 expressions x eval(1,3,300) / min / max / "
        "batch_eval, directly, after satisfiable()+branch(), and repeated (cache); FP both sorts x boundary alphabet x "
        "{bit-pattern pin, IEEE equality} x eval on f, -f, |f| and the pattern read back; strings x the string "
        "alphabet x eval on s, s+s, StrLen, StrSubstr; every returned value must be a member (floats by bit pattern)",
    )
    if tier == "quick":
        widths, fps, strs, nsh = [1, 8, 64, 65], "small", V.string_alphabet("small"), 4
        bvc, fpc, strc = ["Solver", "SolverComposite"], ["Solver", "SolverCacheless"], ["SolverStrings", "Solver"]
    else:
        widths, fps, strs, nsh = [1, 2, 8, 64, 65, 128, 256], "full", V.string_alphabet("full"), 8
        bvc, fpc, strc = BV_CLASSES, BV_CLASSES, STR_CLASSES
    for res in pmap(_bv_job, [(w, cls, lo, nsh) for w in widths for cls in bvc for lo in range(nsh)]):
        rep.merge(res)
    for res in pmap(_fp_job, [(s, cls, fps) for s in ("FLOAT", "DOUBLE") for cls in fpc]):
        rep.merge(res)
    chunks = [strs[i::16] for i in range(16)]
    for res in pmap(_str_job, [(cls, ch) for cls in strc for ch in chunks if ch]):
        rep.merge(res)
    rep.counts["states"] = rep.counts.get("bv_queries", 0) + rep.counts.get("fp_queries", 0) + rep.counts.get("string_queries", 0)
    rep.assumptions = [
        "exhaustive over the stated value alphabets and pin shapes only",
        "fpToIEEEBV of NaN is unspecified: any NaN is accepted there; min / max on FP expressions may be declined",
    ]
    return rep.finish()


def replay(path: str) -> int:
    data = json.load(open(path))
    bad = 0
    for c in data["cases"]:
        rp = c.get("replay") or {}
        if rp.get("kind") == "bv":
            res = _bv_job(tuple(rp["item"]))
        elif rp.get("kind") == "fp":
            res = _fp_job(tuple(rp["item"]))
        elif rp.get("kind") == "str":
            res = _str_job((rp["cls"], [rp["t"]]))
        else:
            continue
        if any(f["case"] == c["case"] for f in res["failures"]):
            bad += 1
            print(f"VIOLATION property={PID} replay={path}")
            print("  ", c["case"])
        else:
            print("replay:", c["case"], "holds now")
    return 1 if bad else 0
