"""C07 – annotations survive rewriting as the annotation contract promises.

E1 traversal in which leaves (variables and constants) additionally come in annotated variants:
E (eliminatable), U (non-eliminatable, non-relocatable), R (relocatable), each a distinct instance
per position so that provenance is readable.  On every transition (one public operation, incl. every
If shortcut, flatten / identity / absorption rewrite and concrete fold) the contract of annotation.py
is checked on the returned node:
  * every U annotation reachable in an argument is still reachable in the result (a rewrite that would
    remove its carrier must be skipped);
  * every R annotation carried by an argument is on the result (result.annotations);
and, for every distinct annotated state, explicit simplification:
  * claripy.simplify(e).annotations >= e.annotations + R annotations of e's direct arguments.
Solver part: for Solver / SolverComposite / SolverHybrid / SolverReplacement, every constraint list of
<= 3 constraints in which each constraint carries none / SimplificationAvoidanceAnnotation /
StridedIntervalAnnotation (also inside, on a leaf), with a query before simplify() or not: a
constraint that carries an avoidance annotation must be the SAME object in s.constraints afterwards,
and the model set is unchanged.
"""

from __future__ import annotations

import itertools
import json
import threading

import claripy
from claripy.annotation import Annotation, SimplificationAvoidanceAnnotation, StridedIntervalAnnotation
from claripy.errors import ClaripyError

from .. import exprspace
from .. import histspace as H
from ..common import Part, Report, pmap
from ..exprspace import site_sig
from ..refsem import DenError, mask, show

PID = "C07"


class An(Annotation):
    def __init__(self, kind, tag):
        self.kind = kind
        self.tag = tag

    @property
    def eliminatable(self):
        return self.kind == "E"

    @property
    def relocatable(self):
        return self.kind == "R"

    def relocate(self, src, dst):
        return self

    def __hash__(self):
        return hash(("c07", self.kind, self.tag))

    def __eq__(self, o):
        return type(o) is An and (o.kind, o.tag) == (self.kind, self.tag)

    def __repr__(self):
        return f"{self.kind}:{self.tag}"


def reachable_U(e, memo):
    """all non-eliminatable, non-relocatable annotations on e or any sub-expression"""
    k = id(e)
    r = memo.get(k)
    if r is not None:
        return r[0]
    s = {a for a in e.annotations if not a.eliminatable and not a.relocatable}
    for a in e.args:
        if isinstance(a, claripy.ast.Base):
            s |= reachable_U(a, memo)
    s = frozenset(s)
    memo[k] = (s, e)
    return s


def carried_R(e):
    return {a for a in e.annotations if not a.eliminatable and a.relocatable}


def seed_states(space):
    """annotated leaf variants; registered as extra partners too"""
    w = space.w
    x, y = space.bvs[0], space.bvs[1]
    c = space.bools[0]
    m = mask(w)
    bv = [
        x.annotate(An("E", "x")),
        x.annotate(An("U", "x")),
        x.annotate(An("R", "x")),
        y.annotate(An("U", "y")),
        claripy.BVV(0, w).annotate(An("U", "k0")),
        claripy.BVV(0, w).annotate(An("R", "k0")),
        claripy.BVV(m, w).annotate(An("U", "km")),
    ]
    bl = [
        c.annotate(An("U", "c")),
        c.annotate(An("R", "c")),
        claripy.true().annotate(An("U", "T")),
        claripy.false().annotate(An("U", "F")),
        claripy.true().annotate(An("R", "T")),
    ]
    space.extra_bv_partners.setdefault(w, []).extend(bv)
    space.extra_bool_partners.extend(bl)
    return bv + bl


def monitor(space, tr, part, opts):
    part.count("transitions")
    memo = space.__dict__.setdefault("_c07_memo", {})
    ops = [o for o in tr.operands if isinstance(o, claripy.ast.Base)]
    U_in = frozenset().union(*[reachable_U(o, memo) for o in ops]) if ops else frozenset()
    R_in = set().union(*[carried_R(o) for o in ops]) if ops else set()
    if not U_in and not R_in:
        # nothing to lose, and nothing built from annotation-free operands can carry U / R annotations:
        # the transition and everything below it is outside this property
        part.count("annotation_free_transitions_skipped")
        return None
    try:
        r = tr.build()
    except Exception:  # noqa: BLE001   (C01/C04 decide about exceptions)
        part.count("raised")
        return None
    if r is NotImplemented or not isinstance(r, claripy.ast.Base):
        return None
    if U_in or R_in:
        part.count("annotated_transitions")
        U_out = reachable_U(r, memo)
        lostU = U_in - U_out
        lostR = R_in - set(r.annotations)
        if lostU or lostR:
            what = ("U" if lostU else "") + ("R" if lostR else "")
            part.fail(
                f"lost-{what}:{site_sig(tr)}",
                f"w={space.w}|{tr.key}",
                {"built": show(r), "lost_uneliminatable": sorted(map(repr, lostU)), "lost_relocatable": sorted(map(repr, lostR)), "api": tr.api},
                {"kind": "e1", "w": space.w, "key": tr.key},
            )
        else:
            part.sample({"w": space.w, "transition": tr.key, "built": show(r)}, limit=2)
    # explicit simplification of every distinct annotated state
    seen = space.__dict__.setdefault("_c07_seen", {})
    if id(r) not in seen:
        seen[id(r)] = r
        shallow = all(o.depth == 1 for o in ops)
        if (opts.get("simplify_all") or shallow) and (r.annotations or any(isinstance(a, claripy.ast.Base) and a.annotations for a in r.args)) and not r.is_leaf():
            part.count("transitions")
            part.count("simplify_calls")
            want = set(r.annotations)
            for a in r.args:
                if isinstance(a, claripy.ast.Base):
                    want |= carried_R(a)
            try:
                q = claripy.simplify(r)
            except ClaripyError:
                part.count("simplify_unsupported")
                q = None
            except Exception as e:  # noqa: BLE001
                part.fail(f"simplify:raised:{type(e).__name__}", f"w={space.w}|{tr.key}|simplify", str(e)[:160])
                q = None
            if q is not None:
                lost = want - set(q.annotations)
                if lost:
                    part.fail(
                        f"simplify-lost:{r.op}",
                        f"w={space.w}|{tr.key}|simplify",
                        {"expr": show(r), "simplified": show(q), "lost": sorted(map(repr, lost))},
                        {"kind": "e1", "w": space.w, "key": tr.key},
                    )
    return r


# ---------------------------------------------------------------------------------------------
# solver part
# ---------------------------------------------------------------------------------------------

SOLVER_K = ["x==3", "x!=0", "x<u5", "x+y==5", "y==x", "x&1==0", "x==1|x==6", "c", "x<u2", "x==5"]
ANN_KINDS = ["none", "avoid", "inner-si", "user-U"]


def _annotate_constraint(uni, label, kind):
    c = uni.K[label]
    if kind == "none":
        return c
    if kind == "avoid":
        return c.annotate(SimplificationAvoidanceAnnotation())
    if kind == "si":
        return c.annotate(StridedIntervalAnnotation(1, 0, 7))
    if kind == "user-U":
        return c.annotate(An("U", "k:" + label))
    if kind == "inner-si":
        x = uni.E["x"]
        return claripy.replace(c, x, x.annotate(StridedIntervalAnnotation(1, 0, 7)))
    raise ValueError(kind)


def _solver_job(item):
    cls, chunk = item
    part = Part()
    uni = H.universe("bv3")
    for labels, kinds, pre in chunk:
        out = {}

        def body(labels=labels, kinds=kinds, pre=pre, out=out):
            try:
                s = H.make_solver(cls, {})
                cons = [_annotate_constraint(uni, l, k) for l, k in zip(labels, kinds)]
                for c in cons:
                    s.add(c)
                if pre == "sat":
                    s.satisfiable()
                elif pre == "eval":
                    try:
                        s.eval(uni.E["x"], 9)
                    except claripy.errors.UnsatError:
                        pass
                elif pre == "branch":
                    s = s.branch()
                s.simplify()
                held = list(s.constraints)
                missing = []
                for c, k in zip(cons, kinds):
                    if k in ("avoid", "si") and not any(h is c for h in held):
                        # the constraint may legitimately vanish only if it was deduplicated against an identical object
                        missing.append(show(c))
                out["missing"] = missing
                # model set unchanged
                try:
                    tabs = [uni.den(h) for h in held]
                    after = tuple(i for i in range(uni.N) if all(t[i] for t in tabs))
                    out["models_ok"] = after == uni.models(list(labels))
                    out["models"] = (len(uni.models(list(labels))), len(after))
                except DenError:
                    out["models_ok"] = True
            except BaseException as e:  # noqa: BLE001
                import traceback

                out["error"] = f"{type(e).__name__}: {e}"
                out["tb"] = traceback.format_exc()[-600:]

        t = threading.Thread(target=body)
        t.start()
        t.join()
        part.count("transitions")
        part.count("solver_histories")
        case = f"{cls}|" + " ; ".join(f"{l}@{k}" for l, k in zip(labels, kinds)) + f"|pre={pre}"
        if out.get("error"):
            part.fail(f"{cls}:simplify:raised", case, {"error": out["error"][:200]}, {"kind": "solver", "cls": cls, "labels": labels, "kinds": kinds, "pre": pre})
            continue
        if out.get("missing"):
            part.fail(f"{cls}:avoidance-annotated-constraint-rewritten", case, {"missing": out["missing"]}, {"kind": "solver", "cls": cls, "labels": labels, "kinds": kinds, "pre": pre})
        if not out.get("models_ok", True):
            part.fail(f"{cls}:simplify-changed-models", case, {"models_before_after": out.get("models")}, {"kind": "solver", "cls": cls, "labels": labels, "kinds": kinds, "pre": pre})
        part.sample({"solver": case}, limit=1)
    return part.dump()


def solver_cases(tier):
    out = []
    maxn = 2 if tier == "quick" else 3
    labs = SOLVER_K if tier != "quick" else SOLVER_K[:7]
    for n in range(1, maxn + 1):
        for labels in itertools.permutations(labs, n):
            if n == 3 and labels[0] > labels[1]:
                continue  # order of the first two is covered at n == 2
            for kinds in itertools.product(ANN_KINDS, repeat=n):
                if all(k == "none" for k in kinds):
                    continue
                if n == 3 and sum(k != "none" for k in kinds) > 1:
                    continue
                for pre in ("none", "sat", "eval", "branch"):
                    out.append((labels, kinds, pre))
    # unprotected constraints that contradict each other next to a protected one (a simplify() that detects the
    # contradiction must still keep the protected constraint)
    for a, b in (("x==3", "x==5"), ("x<u2", "x==3"), ("x==5", "x<u5"), ("x==3", "x!=0")):
        for prot in ("x+y==5", "c", "x<u5"):
            for kind in ("avoid", "inner-si", "user-U"):
                for order in itertools.permutations([(a, "none"), (b, "none"), (prot, kind)]):
                    for pre in ("none", "sat"):
                        out.append((tuple(o[0] for o in order), tuple(o[1] for o in order), pre))
    return out


def run(tier: str) -> int:
    rep = Report(
        PID,
        tier,
        "model_checking",
        rule="E1 BFS with annotated leaf variants (E / U / R annotations on variables and constants, distinct instance per "
        "position); on every transition: U annotations reachable in the arguments are reachable in the result, R "
        "annotations carried by the arguments are on the result; claripy.simplify on every distinct annotated state keeps "
        "the top annotations and the R annotations of direct arguments; solver part: every <=2 (3) constraint list x "
        "annotation kind per constraint x pre-query on four frontend classes: avoidance-annotated constraints are the "
        "same object after simplify(), model set unchanged",
    )
    if tier == "quick":
        cfgs = [dict(w=1, depth=2, seed_states=seed_states), dict(w=2, depth=2, full=False, seed_states=seed_states)]
    else:
        cfgs = [dict(w=1, depth=2, seed_states=seed_states, opts={"simplify_all": True}), dict(w=2, depth=2, seed_states=seed_states), dict(w=8, depth=2, full=False, seed_states=seed_states), dict(w=3, depth=2, full=False, seed_states=seed_states)]
    exprspace.run_e1(rep, "mc.checks.c07:monitor", cfgs)
    cases = solver_cases(tier)
    for cls in ("Solver", "SolverComposite", "SolverHybrid", "SolverReplacement"):
        chunks = [cases[i::32] for i in range(32)]
        for res in pmap(_solver_job, [(cls, ch) for ch in chunks if ch]):
            rep.merge(res)
    rep.extra["solver_cases_per_class"] = len(cases)
    rep.assumptions = [
        "eliminatable annotations may disappear at any time (not checked)",
        "a relocatable annotation counts as preserved only if it is on the result node itself (annotation.py: relocate(src, dst) moves it to the result)",
    ]
    return rep.finish()


def replay(path: str) -> int:
    data = json.load(open(path))
    bad = 0
    for c in data["cases"]:
        rp = c.get("replay") or {}
        hit = False
        if rp.get("kind") == "e1":
            sp = exprspace.Space(rp["w"])
            seed_states(sp)
            tr = None
            level = list(sp.leaves()) + [claripy.BVV(k, sp.w) for k in sp.consts(sp.w)] + sp.extra_bv_partners.get(sp.w, []) + sp.extra_bool_partners
            seen = set()
            for _ in range(3):
                nxt = []
                for s in level:
                    for t in sp.transitions(s, full=True):
                        if t.key == rp["key"]:
                            tr = t
                            break
                        try:
                            r = t.build()
                        except Exception:  # noqa: BLE001
                            continue
                        if isinstance(r, claripy.ast.Base) and id(r) not in seen:
                            seen.add(id(r))
                            nxt.append(r)
                    if tr:
                        break
                if tr:
                    break
                level = nxt
            if tr is None:
                print("replay: transition not found", rp["key"])
                continue
            p = Part()
            monitor(sp, tr, p, {})
            hit = any(f["case"] == c["case"] for f in p.failures)
        elif rp.get("kind") == "solver":
            res = _solver_job((rp["cls"], [(tuple(rp["labels"]), tuple(rp["kinds"]), rp["pre"])]))
            hit = bool(res["failures"])
        if hit:
            bad += 1
            print(f"VIOLATION property={PID} replay={path}")
            print("  ", c["case"])
        else:
            print("replay:", c["case"], "holds now")
    return 1 if bad else 0
