"""C03 – string operations mean the same folded and solved, for every character.

E2 exploration over a string alphabet (all strings of length <= 2 over a core of ASCII letters / digits,
'-', '.', regex metacharacters, backslash, NUL, newline, non-ASCII and astral characters, plus listed
longer ones such as '\\u{48}', '007', '-5') and index values {0,1,2,3,|s|,|s|+1,2^63,2^64-1}.
Every operation x argument tuple runs twice on the real code:
  folded – on StringV / BVV literals (concrete backend), and
  solved – on StringS / BVS variables: backends.z3 translation, variables replaced by Z3 literals built
           from CODE POINTS (Unit(CharVal)), ground-evaluated with z3.simplify, and read back code point
           by code point (no escape decoding involved).
Oracle: mc.strref (SMT-LIB definitions).  Literal transport: the Z3 term of StringV(s) must have exactly
the code points of s.  Self-test: strref == Z3's own string functions on code-point literals.
"""

from __future__ import annotations

import itertools
import json

import claripy
import z3

from .. import strref as R
from .. import valspace as V
from ..common import Part, Report, pmap

PID = "C03"
M64 = R.M64


class Z:
    def __init__(self, ctx):
        self.ctx = ctx
        self._lit = {}

    def lit(self, s):
        t = self._lit.get(s)
        if t is None:
            if s == "":
                t = z3.StringVal("", self.ctx)
            else:
                units = [z3.Unit(z3.CharVal(ord(c), self.ctx)) for c in s]
                t = units[0] if len(units) == 1 else z3.Concat(*units)
            self._lit[s] = t
        return t

    def read(self, term):
        r = z3.simplify(term)
        for _ in range(4):  # z3.simplify is not idempotent on nested string terms
            if z3.is_true(r) or z3.is_false(r) or z3.is_bv_value(r) or z3.is_int_value(r) or z3.is_string_value(r):
                break
            r = z3.simplify(r)
        if z3.is_true(r):
            return True
        if z3.is_false(r):
            return False
        if z3.is_bv_value(r) or z3.is_int_value(r):
            return r.as_long()
        if z3.is_seq(r):
            n = z3.simplify(z3.Length(r))
            if not z3.is_int_value(n):
                raise ValueError(f"not ground: {r}")
            out = []
            for i in range(n.as_long()):
                c = z3.simplify(z3.StrToCode(z3.SubString(r, z3.IntVal(i, self.ctx), z3.IntVal(1, self.ctx))))
                if not z3.is_int_value(c):
                    raise ValueError(f"not ground char: {r}")
                out.append(chr(c.as_long()))
            return "".join(out)
        raise ValueError(f"not ground: {r}")


def folded(ast):
    if ast.op == "StringV":
        return ast.args[0]
    if ast.op == "BVV":
        return ast.args[0]
    if ast.op == "BoolV":
        return bool(ast.args[0])
    raise ValueError(f"not folded: {ast.op}")


def selftest(rep, strs):
    ctx = z3.main_ctx()
    zz = Z(ctx)
    n = 0

    def chk(name, ref, term):
        nonlocal n
        n += 1
        got = zz.read(term)
        if got != ref:
            rep.oracle_errors.append(f"strref.{name}: reference {ref!r} != z3 {got!r}")

    small = strs[:12] + ["a.b", "-5", "007", "aa", "ab"]
    for s, t in itertools.product(small, small):
        S, T = zz.lit(s), zz.lit(t)
        chk(f"concat({s!r},{t!r})", R.concat(s, t), z3.Concat(S, T))
        chk(f"contains({s!r},{t!r})", R.contains(s, t), z3.Contains(S, T))
        chk(f"prefixof({t!r},{s!r})", R.prefixof(t, s), z3.PrefixOf(T, S))
        chk(f"suffixof({t!r},{s!r})", R.suffixof(t, s), z3.SuffixOf(T, S))
        for i in (-1, 0, 1, 2, 3, len(s), len(s) + 1, 1 << 63):
            chk(f"indexof({s!r},{t!r},{i})", R.indexof(s, t, i), z3.IndexOf(S, T, z3.IntVal(i, ctx)))
        for u in ("", "a", "xy"):
            chk(f"replace({s!r},{t!r},{u!r})", R.replace(s, t, u), z3.Replace(S, T, zz.lit(u)))
    for s in small:
        S = zz.lit(s)
        chk(f"len({s!r})", R.length(s), z3.Length(S))
        chk(f"to_int({s!r})", R.to_int(s), z3.StrToInt(S))
        for i, k in itertools.product((-1, 0, 1, 2, 3, 1 << 63), (-1, 0, 1, 2, 5, 1 << 64)):
            chk(f"substr({s!r},{i},{k})", R.substr(s, i, k), z3.SubString(S, z3.IntVal(i, ctx), z3.IntVal(k, ctx)))
    for v in (-5, -1, 0, 7, 10, 1 << 64):
        chk(f"from_int({v})", R.from_int(v), z3.IntToStr(z3.IntVal(v, ctx)))
    rep.count("selftest_comparisons", n)


class Cx:
    def __init__(self):
        self.s = [claripy.StringS(f"ss{k}", explicit_name=True) for k in range(3)]
        self.i = [claripy.BVS(f"si{k}", 64, explicit_name=True) for k in range(2)]
        self.zs = [claripy.backends.z3.convert(v) for v in self.s]
        self.zi = [claripy.backends.z3.convert(v) for v in self.i]
        self.z = Z(self.zs[0].ctx)
        self.terms = {}

    def term(self, key, build):
        t = self.terms.get(key)
        if t is None:
            t = claripy.backends.z3.convert(build())
            self.terms[key] = t
        return t


def idx_alphabet(s):
    return sorted({0, 1, 2, 3, len(s), len(s) + 1, 1 << 63, M64})


def _job(item):
    chunk, strs, size = item
    part = Part()
    cx = Cx()
    zz = cx.z
    s0, s1, s2 = cx.s
    i0, i1 = cx.i

    def both(opname, case, exp, fold_thunk, key, solve_ast, subs):
        part.count("transitions", 2)
        part.count("evaluations_folded")
        part.count("evaluations_solved")
        try:
            got = folded(fold_thunk())
            if got != exp:
                part.fail(f"fold:{opname}", f"fold|{case}", {"expected": repr(exp), "got": repr(got)}, {"kind": "str", "case": case})
        except Exception as e:  # noqa: BLE001
            part.fail(f"fold:{opname}:raised:{type(e).__name__}", f"fold|{case}", {"error": str(e)[:160]}, {"kind": "str", "case": case})
        try:
            got = zz.read(z3.substitute(cx.term(key, solve_ast), *subs))
            if got != exp:
                part.fail(f"solve:{opname}", f"solve|{case}", {"expected": repr(exp), "got": repr(got)}, {"kind": "str", "case": case})
        except Exception as e:  # noqa: BLE001
            part.fail(f"solve:{opname}:raised:{type(e).__name__}", f"solve|{case}", {"error": str(e)[:160]}, {"kind": "str", "case": case})

    def bv(v):
        return z3.BitVecVal(v, 64, zz.ctx)

    repl_us = ["", "a", "(", "\\", "b\x00"] if size == "full" else ["", "a", "\\"]
    for s in chunk:
        S = claripy.StringV(s)
        ls = repr(s)
        # literal transport
        part.count("transitions")
        part.count("literal_transport")
        try:
            got = zz.read(claripy.backends.z3.convert(S))
            if got != s:
                part.fail("transport:StringV", f"transport|{ls}", {"written": [ord(c) for c in s], "reached_z3": [ord(c) for c in got]}, {"kind": "str", "case": f"transport|{ls}"})
        except Exception as e:  # noqa: BLE001
            part.fail(f"transport:raised:{type(e).__name__}", f"transport|{ls}", {"error": str(e)[:160]})
        sub_s = [(cx.zs[0], zz.lit(s))]
        both("StrLen", f"StrLen|{ls}", R.length(s) & M64, lambda: claripy.StrLen(S), "len", lambda: claripy.StrLen(s0), sub_s)
        both("StrToInt", f"StrToInt|{ls}", R.to_int(s) & M64, lambda: claripy.StrToInt(S), "toint", lambda: claripy.StrToInt(s0), sub_s)
        for i in idx_alphabet(s):
            for k in idx_alphabet(s):
                I, K = claripy.BVV(i, 64), claripy.BVV(k, 64)
                both("StrSubstr", f"StrSubstr|{i}|{k}|{ls}", R.substr(s, i, k), lambda: claripy.StrSubstr(I, K, S), "substr", lambda: claripy.StrSubstr(i0, i1, s0), [*sub_s, (cx.zi[0], bv(i)), (cx.zi[1], bv(k))])
        for t in strs:
            T = claripy.StringV(t)
            lt = repr(t)
            sub_st = [*sub_s, (cx.zs[1], zz.lit(t))]
            both("StrConcat", f"StrConcat|{ls}|{lt}", R.concat(s, t), lambda: claripy.StrConcat(S, T), "concat", lambda: claripy.StrConcat(s0, s1), sub_st)
            both("StrContains", f"StrContains|{ls}|{lt}", R.contains(s, t), lambda: claripy.StrContains(S, T), "contains", lambda: claripy.StrContains(s0, s1), sub_st)
            both("StrPrefixOf", f"StrPrefixOf|{lt}|{ls}", R.prefixof(t, s), lambda: claripy.StrPrefixOf(T, S), "prefix", lambda: claripy.StrPrefixOf(s1, s0), sub_st)
            both("StrSuffixOf", f"StrSuffixOf|{lt}|{ls}", R.suffixof(t, s), lambda: claripy.StrSuffixOf(T, S), "suffix", lambda: claripy.StrSuffixOf(s1, s0), sub_st)
            both("__eq__", f"eq|{ls}|{lt}", s == t, lambda: S == T, "eq", lambda: s0 == s1, sub_st)
            both("__ne__", f"ne|{ls}|{lt}", s != t, lambda: S != T, "ne", lambda: s0 != s1, sub_st)
            for i in idx_alphabet(s):
                I = claripy.BVV(i, 64)
                both("StrIndexOf", f"StrIndexOf|{ls}|{lt}|{i}", R.indexof(s, t, i) & M64, lambda: claripy.StrIndexOf(S, T, I), "indexof", lambda: claripy.StrIndexOf(s0, s1, i0), [*sub_st, (cx.zi[0], bv(i))])
            for u in repl_us:
                U = claripy.StringV(u)
                both("StrReplace", f"StrReplace|{ls}|{lt}|{u!r}", R.replace(s, t, u), lambda: claripy.StrReplace(S, T, U), "replace", lambda: claripy.StrReplace(s0, s1, s2), [*sub_st, (cx.zs[2], zz.lit(u))])
        part.sample({"string": ls, "code_points": [ord(c) for c in s], "partners": len(strs)}, limit=1)
    return part.dump()


def _misc_job(_):
    part = Part()
    cx = Cx()
    zz = cx.z
    # IntToStr over integer boundaries
    for v in sorted({0, 1, 5, 9, 10, 99, 100, 255, 1 << 31, (1 << 63) - 1, 1 << 63, M64, M64 - 4}):
        for path in ("fold", "solve"):
            part.count("transitions")
            exp = R.from_int(v)
            try:
                if path == "fold":
                    got = folded(claripy.IntToStr(claripy.BVV(v, 64)))
                else:
                    got = zz.read(z3.substitute(cx.term("i2s", lambda: claripy.IntToStr(cx.i[0])), (cx.zi[0], z3.BitVecVal(v, 64, zz.ctx))))
                if got != exp:
                    part.fail(f"{path}:IntToStr", f"{path}|IntToStr|{v}", {"expected": exp, "got": repr(got)})
            except Exception as e:  # noqa: BLE001
                part.fail(f"{path}:IntToStr:raised:{type(e).__name__}", f"{path}|IntToStr|{v}", {"error": str(e)[:160]})

    # equal strings carrying different annotations
    class A(claripy.Annotation):
        eliminatable = False
        relocatable = False

        def __init__(self, t):
            self.t = t

        def __hash__(self):
            return hash(("c03", self.t))

        def __eq__(self, o):
            return isinstance(o, A) and o.t == self.t

    for s in ("", "a", "ab", "(", "\x00", "é"):
        a = claripy.StringV(s).annotate(A(1))
        b = claripy.StringV(s).annotate(A(2))
        c = claripy.StringV(s)
        for la, p, q in (("ann1-vs-ann2", a, b), ("ann-vs-plain", a, c), ("plain-vs-ann", c, b)):
            part.count("transitions", 2)
            try:
                e = p == q
                n = p != q
                # the comparison must not fold to the wrong constant
                if claripy.is_false(e) or (e.op == "BoolV" and not e.args[0]):
                    part.fail("fold:__eq__:annotated", f"fold|eq-annotated|{s!r}|{la}", {"got": "False", "expected": "True"})
                if claripy.is_true(n) or (n.op == "BoolV" and n.args[0]):
                    part.fail("fold:__ne__:annotated", f"fold|ne-annotated|{s!r}|{la}", {"got": "True", "expected": "False"})
            except Exception as ex:  # noqa: BLE001
                part.fail(f"fold:eq-annotated:raised:{type(ex).__name__}", f"fold|eq-annotated|{s!r}|{la}", {"error": str(ex)[:160]})
    return part.dump()


def run(tier: str) -> int:
    rep = Report(
        PID,
        tier,
        "exploration",
        rule="E2: operation x argument tuple over the string alphabet (all strings of length <= 2 over a core alphabet of "
        "metacharacters / backslash / NUL / newline / non-ASCII / astral characters, plus listed specials) and index "
        "alphabet {0,1,2,3,|s|,|s|+1,2^63,2^64-1}; each case folded (literals) and solved (variables -> backends.z3 "
        "-> code-point literals substituted -> ground evaluation -> read back per code point); oracle = SMT-LIB "
        "definitions in strref; plus literal transport of every string and equality of equal strings with different annotations",
    )
    size = "small" if tier == "quick" else "full"
    strs = V.string_alphabet(size)
    selftest(rep, strs)
    chunks = [strs[i::48] for i in range(48)]
    for res in pmap(_job, [(c, strs, size) for c in chunks if c]):
        rep.merge(res)
    for res in pmap(_misc_job, [0]):
        rep.merge(res)
    rep.counts["states"] = len(strs)
    rep.extra["alphabet"] = [repr(s) for s in strs]
    rep.assumptions = [
        "exhaustive over the stated string / index alphabets only",
        "Z3 characters are code points up to 0x2FFFF; the alphabet stays below",
        "strref agrees with Z3's own string functions on code-point literals (checked at set-up)",
    ]
    return rep.finish()


def replay(path: str) -> int:
    data = json.load(open(path))
    strs = V.string_alphabet("full")
    bad = 0
    for c in data["cases"]:
        case = c["case"]
        hit = False
        res = _misc_job(0)
        if any(f["case"] == case for f in res["failures"]):
            hit = True
        else:
            for size in ("small", "full"):
                ss = V.string_alphabet(size)
                cand = [s for s in ss if repr(s) in case]
                res = _job((cand, ss, size))
                if any(f["case"] == case for f in res["failures"]):
                    hit = True
                    break
        if hit:
            bad += 1
            print(f"VIOLATION property={PID} replay={path}")
            print("  ", case)
        else:
            print("replay:", case, "holds now")
    return 1 if bad else 0
