"""C06 – structurally equal expressions are one object; different ones never merge.

Explicit-state exploration of the hash-cons table.  State = the set of live ASTs (Base._hash_cache,
_bvv_cache); transition = one *build request* from a pool R (a thunk that builds a leaf / annotated
leaf / depth-1 expression from scratch, creating its own annotation instances).  Histories = every
ordered pair (thorough: a family of triples) of requests, earlier results kept alive, the table emptied
between histories, and every request also built alone in an empty table.

Oracles on every history:
  O1 (nothing merges that differs): the object returned for a request has exactly the descriptor the
     request asks for – op, args, length, and the *contents* (type + field values) of its annotations;
     for depth-1 requests the expected descriptor is the one obtained in an empty table (differential
     "from the initial state vs from elsewhere").  Earlier results must keep their descriptor as well.
  O2 (equal things are shared): two live results with equal descriptors whose annotations are pairwise
     `==` are the same object.
The pool contains the pairs whose Python hashes collide (-1/-2, 0/2^61-1, 2^61/1 ...), user annotation
classes with constant / default / field-based hashes, equal-but-distinct instances, BVV with and
without annotations=, values whose serialisations could alias (True vs 1, -0.0 vs 0.0, NaN, int vs
same-bytes str, names vs values).
"""

from __future__ import annotations

import gc
import itertools
import json
import math
import struct

import claripy
from claripy.annotation import Annotation, RegionAnnotation, StridedIntervalAnnotation, UninitializedAnnotation

from ..common import Part, Report, pmap

PID = "C06"


# ---------------------------------------------------------------------------------------------
# user annotation classes
# ---------------------------------------------------------------------------------------------


class ConstHash(Annotation):
    """constant __hash__, field-wise __eq__"""

    eliminatable = False
    relocatable = False

    def __init__(self, v):
        self.v = v

    def __hash__(self):
        return 7

    def __eq__(self, o):
        return type(o) is ConstHash and o.v == self.v


class FieldHash(Annotation):
    eliminatable = False
    relocatable = False

    def __init__(self, v):
        self.v = v

    def __hash__(self):
        return hash(("FieldHash", self.v))

    def __eq__(self, o):
        return type(o) is FieldHash and o.v == self.v


class FieldHash2(FieldHash):
    """same fields / hash recipe as FieldHash but another type"""

    def __hash__(self):
        return hash(("FieldHash", self.v))

    def __eq__(self, o):
        return type(o) is FieldHash2 and o.v == self.v


class DefaultHash(Annotation):
    """default identity hash / eq"""

    eliminatable = False
    relocatable = False

    def __init__(self, v):
        self.v = v


class Reloc(Annotation):
    eliminatable = False
    relocatable = True

    def __init__(self, v):
        self.v = v

    def __hash__(self):
        return hash(("Reloc", self.v))

    def __eq__(self, o):
        return type(o) is Reloc and o.v == self.v

    def relocate(self, src, dst):
        return self


# ---------------------------------------------------------------------------------------------
# descriptors
# ---------------------------------------------------------------------------------------------


def prim_sig(v):
    if isinstance(v, bool):
        return ("bool", v)
    if isinstance(v, int):
        return ("int", v)
    if isinstance(v, float):
        return ("float", struct.pack("<d", v).hex() if not math.isnan(v) else "nan")
    if isinstance(v, str):
        return ("str", v)
    if isinstance(v, bytes):
        return ("bytes", v.hex())
    if v is None:
        return ("none",)
    if isinstance(v, tuple):
        return ("tuple", tuple(prim_sig(x) for x in v))
    return ("obj", type(v).__name__, repr(v))


def anno_sig(a):
    d = getattr(a, "__dict__", {}) or {}
    return (type(a).__qualname__, tuple(sorted((k, prim_sig(v)) for k, v in d.items())))


def desc(o, memo=None):
    """deep structural descriptor of an AST"""
    if not isinstance(o, claripy.ast.Base):
        return prim_sig(o)
    return (
        type(o).__name__,
        o.op,
        tuple(desc(a) for a in o.args),
        o.length,
        tuple(sorted(anno_sig(a) for a in o.annotations)),
    )


def annos_equal(a, b):
    """annotation tuples pairwise == (as multisets, by the annotations' own __eq__)"""
    xs, ys = list(a.annotations), list(b.annotations)
    if len(xs) != len(ys):
        return False
    for x in xs:
        for k, y in enumerate(ys):
            if x == y:
                del ys[k]
                break
        else:
            return False
    return True


# ---------------------------------------------------------------------------------------------
# the request pool
# ---------------------------------------------------------------------------------------------

FIELD_VALS = [-2, -1, 0, 1, (1 << 61) - 2, (1 << 61) - 1, 1 << 61, (1 << 64) - 1]


def _ops_for(w):
    def x():
        return claripy.BVS(f"hx{w}", w, explicit_name=True)

    def y():
        return claripy.BVS(f"hy{w}", w, explicit_name=True)

    def c():
        return claripy.BoolS("hc", explicit_name=True)

    return [
        ("x+y", lambda: x() + y()),
        ("y+x", lambda: y() + x()),
        ("x+1", lambda: x() + 1),
        ("x+2", lambda: x() + 2),
        ("x-1", lambda: x() - 1),
        ("x+(-1)", lambda: x() + (-1)),
        ("x&x", lambda: x() & x()),
        ("x^x", lambda: x() ^ x()),
        ("~x", lambda: ~x()),
        ("-x", lambda: -x()),
        ("x==y", lambda: x() == y()),
        ("x!=y", lambda: x() != y()),
        ("x==1", lambda: x() == 1),
        ("ULT(x,y)", lambda: claripy.ULT(x(), y())),
        ("UGT(y,x)", lambda: claripy.UGT(y(), x())),
        ("If(c,x,y)", lambda: claripy.If(c(), x(), y())),
        ("If(c,y,x)", lambda: claripy.If(c(), y(), x())),
        ("x[0:0]", lambda: x()[0:0]),
        ("ZeroExt1", lambda: claripy.ZeroExt(1, x())),
        ("SignExt1", lambda: claripy.SignExt(1, x())),
        ("Concat(x,y)", lambda: claripy.Concat(x(), y())),
        ("x+y@U", lambda: (x() + y()).annotate(FieldHash(-1))),
        ("x+y@U2", lambda: (x() + y()).annotate(FieldHash(-2))),
        ("x+y@U3", lambda: (x() + y()).annotate(FieldHash("a"))),
        ("xU+y", lambda: x().annotate(FieldHash(-1)) + y()),
        ("xU2+y", lambda: x().annotate(FieldHash(-2)) + y()),
        ("xR+y", lambda: x().annotate(Reloc(-1)) + y()),
        ("xR2+y", lambda: x().annotate(Reloc(-2)) + y()),
        ("xR3+y", lambda: x().annotate(Reloc("a")) + y()),
    ]


def pool(size):
    """-> list of (label, group, thunk, expected_descriptor or None)"""
    R = []

    def add(label, group, thunk, expect=None):
        R.append((label, group, thunk, expect))

    def leaf_expect(cls, op, args, length, annos):
        return (cls, op, tuple(prim_sig(a) for a in args), length, tuple(sorted(anno_sig(a) for a in annos)))

    widths = [8, 64] if size == "quick" else [1, 8, 64]
    for w in widths:
        # plain leaves
        add(f"BVS:x{w}", f"bvs{w}", lambda w=w: claripy.BVS(f"hx{w}", w, explicit_name=True), leaf_expect("BV", "BVS", (f"hx{w}", w), w, ()))
        add(f"BVS:y{w}", f"bvs{w}", lambda w=w: claripy.BVS(f"hy{w}", w, explicit_name=True), leaf_expect("BV", "BVS", (f"hy{w}", w), w, ()))
        vals = sorted({0, 1, 2, (1 << w) - 1, (1 << w) - 2, 1 << (w - 1)} & set(range(1 << w)) if w <= 8 else {0, 1, 2, (1 << w) - 1, (1 << w) - 2, 1 << (w - 1), (1 << 61) - 1, 1 << 61})
        for v in vals:
            add(f"BVV:{v}#{w}", f"bvv{w}", lambda v=v, w=w: claripy.BVV(v, w), leaf_expect("BV", "BVV", (v, w), w, ()))
        # integers whose serialisation could alias the one-byte markers of None / True / False, and the empty SI
        if w >= 8:
            for v in (15, 31, 46, 0x0F0F):
                if v < (1 << w):
                    add(f"BVV:{v}#{w}", f"bvv{w}", lambda v=v, w=w: claripy.BVV(v, w), leaf_expect("BV", "BVV", (v, w), w, ()))
        add(f"ESI#{w}", f"bvv{w}", lambda w=w: claripy.ESI(w), ("BV", "BVV", (prim_sig(None), prim_sig(w)), w, ()))
        add(f"BVV:-1#{w}", f"bvv{w}", lambda w=w: claripy.BVV(-1, w), leaf_expect("BV", "BVV", ((1 << w) - 1, w), w, ()))
        add(f"BVV:-2#{w}", f"bvv{w}", lambda w=w: claripy.BVV(-2, w), leaf_expect("BV", "BVV", ((1 << w) - 2, w), w, ()))
        # strided-interval annotated variables (the SI() constructor) over colliding field values
        fv = FIELD_VALS if size != "quick" or w == 64 else [-2, -1, 0, 1]
        for lb in fv:
            add(
                f"SI:x{w}:lb={lb}",
                f"si{w}",
                lambda w=w, lb=lb: claripy.SI(name=f"hx{w}", bits=w, stride=1, lower_bound=lb, upper_bound=5, explicit_name=True),
                leaf_expect("BV", "BVS", (f"hx{w}", w), w, (StridedIntervalAnnotation(1, lb, 5),)),
            )
        for ub in fv:
            add(
                f"SI:x{w}:ub={ub}",
                f"si{w}",
                lambda w=w, ub=ub: claripy.SI(name=f"hx{w}", bits=w, stride=1, lower_bound=0, upper_bound=ub, explicit_name=True),
                leaf_expect("BV", "BVS", (f"hx{w}", w), w, (StridedIntervalAnnotation(1, 0, ub),)),
            )
        for st in (0, 1, 2, -1, -2):
            add(
                f"SI:x{w}:stride={st}",
                f"si{w}",
                lambda w=w, st=st: claripy.SI(name=f"hx{w}", bits=w, stride=st, lower_bound=0, upper_bound=5, explicit_name=True),
                leaf_expect("BV", "BVS", (f"hx{w}", w), w, (StridedIntervalAnnotation(st, 0, 5),)),
            )
        # region annotations
        for rid, base in (("global", 0), ("global", -1), ("global", -2), ("stack", 0), ("stack", 1 << 61), ("stack", 1)):
            add(
                f"Region:x{w}:{rid}@{base}",
                f"reg{w}",
                lambda w=w, rid=rid, base=base: claripy.BVS(f"hx{w}", w, explicit_name=True).annotate(RegionAnnotation(rid, base)),
                leaf_expect("BV", "BVS", (f"hx{w}", w), w, (RegionAnnotation(rid, base),)),
            )
        # user annotations
        for cls in (ConstHash, FieldHash, FieldHash2, DefaultHash, Reloc):
            for v in (-2, -1, 0, "a", "b") if cls is not DefaultHash else (0, 0):
                add(
                    f"{cls.__name__}:x{w}:{v!r}",
                    f"user{w}",
                    lambda w=w, cls=cls, v=v: claripy.BVS(f"hx{w}", w, explicit_name=True).annotate(cls(v)),
                    leaf_expect("BV", "BVS", (f"hx{w}", w), w, (cls(v),)),
                )
        add(f"Uninit:x{w}", f"user{w}", lambda w=w: claripy.BVS(f"hx{w}", w, explicit_name=True).annotate(UninitializedAnnotation()), leaf_expect("BV", "BVS", (f"hx{w}", w), w, (UninitializedAnnotation(),)))
        # BVV with annotations= / annotate, then plain again (the _bvv_cache)
        for v in (0, 1):
            for a in (-1, -2):
                add(
                    f"BVVkw:{v}#{w}:FieldHash({a})",
                    f"bvv{w}",
                    lambda v=v, w=w, a=a: claripy.BVV(v, w, annotations=(FieldHash(a),)),
                    leaf_expect("BV", "BVV", (v, w), w, (FieldHash(a),)),
                )
                add(
                    f"BVVann:{v}#{w}:FieldHash({a})",
                    f"bvv{w}",
                    lambda v=v, w=w, a=a: claripy.BVV(v, w).annotate(FieldHash(a)),
                    leaf_expect("BV", "BVV", (v, w), w, (FieldHash(a),)),
                )
        # depth-1 requests (expected descriptor = the one from an empty table)
        for nm, th in _ops_for(w):
            add(f"op{w}:{nm}", f"op{w}", th, None)
    # Bool, FP, String leaves; aliasing candidates
    for nm, th, ex in (
        ("BoolS:c", lambda: claripy.BoolS("hc", explicit_name=True), ("Bool", "BoolS", (prim_sig("hc"),), None, ())),
        ("BoolS:d", lambda: claripy.BoolS("hd", explicit_name=True), ("Bool", "BoolS", (prim_sig("hd"),), None, ())),
        ("BoolV:T", lambda: claripy.BoolV(True), ("Bool", "BoolV", (prim_sig(True),), None, ())),
        ("BoolV:F", lambda: claripy.BoolV(False), ("Bool", "BoolV", (prim_sig(False),), None, ())),
        ("true()", claripy.true, ("Bool", "BoolV", (prim_sig(True),), None, ())),
        ("BVV:1#1", lambda: claripy.BVV(1, 1), ("BV", "BVV", (prim_sig(1), prim_sig(1)), 1, ())),
        ("FPV:0.0", lambda: claripy.FPV(0.0, claripy.FSORT_DOUBLE), None),
        ("FPV:-0.0", lambda: claripy.FPV(-0.0, claripy.FSORT_DOUBLE), None),
        ("FPV:nan", lambda: claripy.FPV(float("nan"), claripy.FSORT_DOUBLE), None),
        ("FPV:1.0d", lambda: claripy.FPV(1.0, claripy.FSORT_DOUBLE), None),
        ("FPV:1.0f", lambda: claripy.FPV(1.0, claripy.FSORT_FLOAT), None),
        ("FPV:inf", lambda: claripy.FPV(float("inf"), claripy.FSORT_DOUBLE), None),
        ("FPV:-inf", lambda: claripy.FPV(float("-inf"), claripy.FSORT_DOUBLE), None),
        ("FPS:f", lambda: claripy.FPS("hf", claripy.FSORT_DOUBLE, explicit_name=True), None),
        ("FPS:f32", lambda: claripy.FPS("hf", claripy.FSORT_FLOAT, explicit_name=True), None),
        ("StringV:a", lambda: claripy.StringV("a"), ("String", "StringV", (prim_sig("a"),), None, ())),
        ("StringV:empty", lambda: claripy.StringV(""), ("String", "StringV", (prim_sig(""),), None, ())),
        ("StringV:hs", lambda: claripy.StringV("hs"), ("String", "StringV", (prim_sig("hs"),), None, ())),
        ("StringS:hs", lambda: claripy.StringS("hs", explicit_name=True), None),
        ("StringS:a", lambda: claripy.StringS("a", explicit_name=True), None),
        ("BVS:hc#1", lambda: claripy.BVS("hc", 1, explicit_name=True), ("BV", "BVS", (prim_sig("hc"), prim_sig(1)), 1, ())),
        ("BVS:hs#8", lambda: claripy.BVS("hs", 8, explicit_name=True), ("BV", "BVS", (prim_sig("hs"), prim_sig(8)), 8, ())),
        ("BVV:bytes-a", lambda: claripy.BVV(b"a"), ("BV", "BVV", (prim_sig(97), prim_sig(8)), 8, ())),
        ("BVV:97#8", lambda: claripy.BVV(97, 8), ("BV", "BVV", (prim_sig(97), prim_sig(8)), 8, ())),
    ):
        add(nm, "misc", th, ex)
    return R


# ---------------------------------------------------------------------------------------------
# running histories
# ---------------------------------------------------------------------------------------------


def _empty_table():
    gc.collect()


_BASE = {}


def baseline(R):
    """descriptor of every request built alone in an (as far as we can make it) empty table"""
    out = {}
    for label, group, th, expect in R:
        _empty_table()
        try:
            o = th()
            out[label] = desc(o)
            del o
        except Exception as e:  # noqa: BLE001
            out[label] = ("raised", type(e).__name__)
    return out


def check_history(R, base, idxs, part):
    """build the requests idxs in order, keep them alive, apply O1/O2"""
    objs = []
    labels = [R[i][0] for i in idxs]
    case = " ; ".join(labels)
    part.count("transitions", len(idxs))
    part.count("histories")
    for i in idxs:
        label, group, th, expect = R[i]
        try:
            o = th()
        except Exception as e:  # noqa: BLE001
            if base.get(label) != ("raised", type(e).__name__):
                part.fail(f"raised:{type(e).__name__}", case, {"request": label, "error": str(e)[:160]}, {"hist": labels})
            return
        objs.append(o)
    # O1: every result (earlier ones re-examined after the later builds) has the descriptor requested
    for k, i in enumerate(idxs):
        label, group, th, expect = R[i]
        d = desc(objs[k])
        want = expect if expect is not None else base[label]
        if d != want:
            part.fail(
                f"O1:wrong-object:{group.rstrip('0123456789')}",
                case,
                {"request": label, "position": k, "requested": repr(want)[:300], "returned": repr(d)[:300]},
                {"hist": labels},
            )
    # O2: equal descriptors with ==-equal annotations are one object
    for a, b in itertools.combinations(range(len(objs)), 2):
        oa, ob = objs[a], objs[b]
        if oa is ob:
            continue
        if desc(oa) == desc(ob) and annos_equal(oa, ob):
            # arguments must be shared too for the hash to coincide: compare children by identity
            part.fail(
                f"O2:not-shared:{R[idxs[a]][1].rstrip('0123456789')}",
                case,
                {"first": labels[a], "second": labels[b], "descriptor": repr(desc(oa))[:300]},
                {"hist": labels},
            )
    del objs


def _job(item):
    size, lo, hi, triples = item
    part = Part()
    R = pool(size)
    base = baseline(R)
    n = len(R)
    if triples:
        # triples inside each group (and its plain-leaf companions)
        groups = {}
        for i, r in enumerate(R):
            groups.setdefault(r[1], []).append(i)
        work = []
        for g, ids in sorted(groups.items()):
            ids = ids[:14]
            work += list(itertools.permutations(ids, 3))
        work = work[lo::hi]
        for idxs in work:
            check_history(R, base, idxs, part)
    else:
        for i in range(lo, min(hi, n)):
            check_history(R, base, (i,), part)
            for j in range(n):
                check_history(R, base, (i, j), part)
            _empty_table()
            part.sample({"first_request": R[i][0], "partners": n}, limit=1)
    return part.dump()


def run(tier: str) -> int:
    rep = Report(
        PID,
        tier,
        "model_checking",
        rule="state = set of live ASTs (hash-cons table); transition = one build request; histories = every ordered pair "
        "of the request pool (thorough: + all ordered triples inside each group), earlier results kept alive, table "
        "emptied between histories, every request also alone in an empty table; O1: the returned object's deep "
        "descriptor (class, op, args, length, annotation types + field values) equals the request's; O2: equal "
        "descriptors with ==-equal annotations are one object",
    )
    size = "quick" if tier == "quick" else "full"
    R = pool(size)
    n = len(R)
    step = max(1, n // 64)
    items = [(size, lo, lo + step, False) for lo in range(0, n, step)]
    if tier == "thorough":
        items += [(size, k, 32, True) for k in range(32)]
    for res in pmap(_job, items):
        rep.merge(res)
    rep.counts["states"] = rep.counts.get("histories", 0)
    rep.extra["pool_size"] = n
    rep.extra["pool_sample"] = [r[0] for r in R[:: max(1, n // 40)]]
    rep.assumptions = [
        "annotations are compared by type and field values (contents); sharing is demanded only when the annotations' own __eq__ says equal",
        "the 'empty table' is approximated by dropping every reference and gc.collect(); module-level singletons of claripy stay alive",
    ]
    return rep.finish()


def replay(path: str) -> int:
    data = json.load(open(path))
    bad = 0
    for c in data["cases"]:
        labels = (c.get("replay") or {}).get("hist") or c["case"].split(" ; ")
        hit = False
        for size in ("quick", "full"):
            R = pool(size)
            idx = {r[0]: i for i, r in enumerate(R)}
            if not all(l in idx for l in labels):
                continue
            p = Part()
            check_history(R, baseline(R), tuple(idx[l] for l in labels), p)
            hit = bool(p.failures)
            break
        if hit:
            bad += 1
            print(f"VIOLATION property={PID} replay={path}")
            print("  ", c["case"])
        else:
            print("replay:", c["case"], "holds now")
    return 1 if bad else 0
