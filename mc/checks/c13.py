"""C13 – SolverReplacement (safe defaults) and SolverHybrid (exact) are exact; approximate modes
(SolverHybrid with exact=False / approximate_first, SolverVSA) only ever over-approximate (E4)."""

from __future__ import annotations

import time

from .. import histspace as H
from ..common import Report
from . import c11

PID = "C13"


def run(tier: str) -> int:
    rep = Report(
        PID,
        tier,
        "model_checking",
        rule="E4 on SolverReplacement (default options and each option toggled), SolverHybrid (exact=None), and the "
        "approximate configurations SolverHybrid(exact=False), SolverHybrid(approximate_first), SolverVSA: BFS over "
        "histories incl. 'bound then equality', 'equality then bound', Not(c), x+1==5 orders; exact configurations use "
        "the exact oracle of C11, approximate ones the containment oracle (never unsat when models exist; a result list "
        "shorter than n contains every value; min <= true min, max >= true max; solution True for feasible values)",
    )
    uni = H.universe("bv3")
    small = H.default_events(uni, "small")
    extra_adds = [("add", k) for k in ("x<u2", "x==5", "x+1==5", "!c", "x==6")]
    ev_repl = [e for e in small if e not in {("add", "y>u6"), ("add", "x==1|x==6"), ("downsize",), ("eval", "x", 2, "none"), ("max", "x", "u", "x==6"), ("min", "x", "s", "y<u2"), ("max", "x", "s", "y<u2")}] + extra_adds
    ev_q = [
        e
        for e in small
        if e[0] in ("add", "branch", "simplify", "pickle")
        or e in (("sat", "none"), ("sat", "x==6"), ("eval", "x", 9, "none"), ("eval", "x", 9, "y>u6"), ("eval", "x+y", 9, "none"), ("min", "x", "u", "none"), ("max", "x", "s", "none"), ("min", "x", "u", "x==6"), ("max", "x", "u", "y<u2"), ("sol", "x", 5, "none"), ("beval", "x,y", 9, "none"))
    ] + extra_adds[:3]
    if tier == "quick":
        plan = [
            ("SolverReplacement", {}, ev_repl, 3, 3, "", False),
            ("SolverHybrid", {}, ev_q, 3, 2, "exact"),
            ("SolverHybrid", {"exact_false": True, "approx": True}, ev_q, 3, 2, "exact=False"),
            ("SolverVSA", {"approx": True}, ev_q, 3, 2, ""),
        ]
    else:
        plan = [
            ("SolverReplacement", {}, ev_repl, 4, 3, ""),
            ("SolverReplacement", {"auto_replace": False}, ev_q, 3, 3, "auto_replace=False"),
            ("SolverHybrid", {}, small + extra_adds, 3, 3, "exact"),
            ("SolverHybrid", {}, ev_q, 4, 3, "exact-d4"),
            ("SolverHybrid", {"exact_false": True, "approx": True}, small + extra_adds, 3, 3, "exact=False"),
            ("SolverHybridApprox", {"approx": True}, ev_q, 3, 3, "approximate_first"),
            ("SolverVSA", {"approx": True}, small + extra_adds, 3, 3, ""),
            ("SolverReplacementVSA", {"approx": True}, ev_q, 3, 3, ""),
        ]
    for cls, cfg, events, depth, max_adds, tag, *rest in plan:
        t0 = time.time()
        # SolverReplacement has recorded exact failing-case sets: explore it without state merging
        H.explore(rep, PID, "bv3", cls, cfg, events, depth, max_adds=max_adds, tag=tag, merge=rest[0] if rest else True)
        rep.extra.setdefault("plan_seconds", []).append(f"{cls}[{tag}] depth={depth} events={len(events)}: {time.time() - t0:.1f}s")
    rep.assumptions = ["as C11; approximate solvers may decline a query (ClaripyFrontendError) – counted as unsupported, not as exclusion"]
    return rep.finish()


def replay(path: str) -> int:
    c11.PID = PID
    return c11.replay(path)
