"""C13 – SolverReplacement (safe defaults) and SolverHybrid (exact) are exact; approximate modes
(SolverHybrid with exact=False / approximate_first, SolverVSA) only ever over-approximate (E4)."""

from __future__ import annotations

import time

from .. import histspace as H
from ..common import Report
from . import c11

PID = "C13"


def run(tier: str) -> int:
    rep = Report(
        PID,
        tier,
        "model_checking",
        rule="E4 on SolverReplacement (default options and each option toggled), SolverHybrid (exact=None), and the "
        "approximate configurations SolverHybrid(exact=False), SolverHybrid(approximate_first), SolverVSA: BFS over "
        "histories incl. 'bound then equality', 'equality then bound', Not(c), x+1==5 orders; exact configurations use "
        "the exact oracle of C11, approximate ones the containment oracle (never unsat when models exist; a result list "
        "shorter than n contains every value; min <= true min, max >= true max; solution True for feasible values)",
    )
    uni = H.universe("bv3")
    small = H.default_events(uni, "small")
    extra_adds = [("add", k) for k in ("x<u2", "x==5", "x+1==5", "!c", "x==6")]
    ev_repl = [e for e in small if e not in {("add", "y>u6"), ("add", "x==1|x==6"), ("downsize",), ("eval", "x", 2, "none"), ("max", "x", "u", "x==6"), ("min", "x", "s", "y<u2"), ("max", "x", "s", "y<u2")}] + extra_adds
    ev_repl_full = list(ev_repl)
    if True:  # the trimmed alphabet; the full one (32 events, 57 000 histories at depth 3) runs in the thorough tier
        drop = {("add", "c"), ("add", "x!=0"), ("eval", "x", 9, "y>u6"), ("eval", "x+y", 9, "none"), ("beval", "x,y", 2, "y<u2"), ("min", "x", "s", "none"), ("max", "x", "u", "y<u2"), ("sol", "x+y", 7, "none"), ("isfalse", "x==0", "none"), ("pickle",), ("add", "!c")}
        ev_repl = [e for e in ev_repl if e not in drop]
    ev_q = [
        e
        for e in small
        if e[0] in ("add", "branch", "simplify", "pickle")
        or e in (("sat", "none"), ("sat", "x==6"), ("eval", "x", 9, "none"), ("eval", "x", 9, "y>u6"), ("eval", "x+y", 9, "none"), ("min", "x", "u", "none"), ("max", "x", "s", "none"), ("min", "x", "u", "x==6"), ("max", "x", "u", "y<u2"), ("sol", "x", 5, "none"), ("beval", "x,y", 9, "none"))
    ] + extra_adds[:3] + [("min", "x", "s", "none"), ("max", "x", "s", "y<u2")]
    # focused alphabets (from the seeded changes the first version missed)
    ev_focus = [("add", "x==5"), ("add", "y==2"), ("add", "x<u2"), ("add", "x!=0"), ("eval", "x+y", 9, "none"), ("max", "x+y", "u", "none"), ("sol", "x+y", 7, "none"), ("min", "x", "u", "none"), ("branch",)]
    ev_exact = [("add", "x<u5"), ("add", "x&1==0"), ("add", "x!=4"), ("add", "x+y==5"), ("eval", "x", 9, "none"), ("eval", "x", 2, "none"), ("eval", "x+y", 9, "none"), ("beval", "x,y", 9, "none"), ("min", "x", "u", "none"), ("max", "x", "s", "none"), ("sol", "x", 3, "none"), ("sat", "none")]
    # signed bounds on INT_MIN / INT_MAX (the balancer's "cannot be satisfied" shortcuts) for the approximate configurations
    ev_sb = [("add", k) for k in ("x<=s-4", "x<s-3", "-4>=sx", "x>=s3", "x>s2", "x<=s-3", "x!=4")] + [("sat", "none"), ("eval", "x", 9, "none"), ("min", "x", "s", "none"), ("max", "x", "s", "none"), ("min", "x", "u", "none"), ("max", "x", "u", "none"), ("sol", "x", 4, "none"), ("sol", "x", 3, "none")]
    sb_plans = [
        ("SolverHybrid", {"exact_false": True, "approx": True}, ev_sb, 2 if tier == "quick" else 3, 2, "signed-bounds,exact=False"),
        ("SolverVSA", {"approx": True}, ev_sb, 2 if tier == "quick" else 3, 2, "signed-bounds"),
        ("SolverReplacementVSA", {"approx": True}, ev_sb, 2 if tier == "quick" else 3, 2, "signed-bounds"),
        ("SolverHybrid", {}, ev_sb, 2 if tier == "quick" else 3, 2, "signed-bounds,exact"),
    ]
    if tier == "quick":
        plan = [
            ("SolverReplacement", {}, ev_repl, 3, 3, "", False),
            ("SolverHybrid", {}, ev_q, 3, 2, "exact"),
            ("SolverHybrid", {"exact_false": True, "approx": True}, ev_q, 3, 2, "exact=False"),
            ("SolverVSA", {"approx": True}, ev_q, 3, 2, ""),
            # replacement-cache invalidation: add ; query a compound ; add ; query it again (judged against the
            # exact oracle; histories that run into a listed SolverReplacement finding end there)
            ("SolverReplacement", {}, ev_focus, 4, 3, "focus4", False),
            # approximate_first with an explicit exact=True must still be exact
            ("SolverHybridApprox", {"exact_true": True}, ev_exact, 3, 3, "approximate_first,exact=True"),
        ]
    else:
        plan = [
            # exact failing-history sets are recorded for SolverReplacement: no state merging (see histspace.explore)
            ("SolverReplacement", {}, ev_repl_full, 3, 3, "", False),
            ("SolverReplacement", {}, ev_repl, 4, 3, "d4", False),
            ("SolverReplacement", {"auto_replace": False}, ev_q, 3, 3, "auto_replace=False", False),
            ("SolverHybrid", {}, small + extra_adds, 3, 3, "exact"),
            ("SolverHybrid", {}, ev_q, 4, 3, "exact-d4"),
            ("SolverHybrid", {"exact_false": True, "approx": True}, small + extra_adds, 3, 3, "exact=False"),
            ("SolverHybridApprox", {"approx": True}, ev_q, 3, 3, "approximate_first"),
            ("SolverVSA", {"approx": True}, small + extra_adds, 3, 3, ""),
            ("SolverReplacementVSA", {"approx": True}, ev_q, 3, 3, ""),
            ("SolverReplacement", {}, ev_focus, 5, 3, "focus5", False),
            ("SolverHybridApprox", {"exact_true": True}, ev_exact, 4, 3, "approximate_first,exact=True"),
        ]
    for cls, cfg, events, depth, max_adds, tag, *rest in plan + sb_plans:
        t0 = time.time()
        # SolverReplacement has recorded exact failing-case sets: explore it without state merging
        H.explore(rep, PID, "bv3", cls, cfg, events, depth, max_adds=max_adds, tag=tag, merge=rest[0] if rest else True)
        rep.extra.setdefault("plan_seconds", []).append(f"{cls}[{tag}] depth={depth} events={len(events)}: {time.time() - t0:.1f}s")
    rep.assumptions = ["as C11; approximate solvers may decline a query (ClaripyFrontendError) – counted as unsupported, not as exclusion"]
    return rep.finish()


def replay(path: str) -> int:
    c11.PID = PID
    return c11.replay(path)
