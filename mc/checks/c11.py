"""C11 – Solver / SolverCacheless / SolverStrings answers are correct after any history (E4)."""

from __future__ import annotations

import json

from .. import histspace as H
from ..common import Report

PID = "C11"


def run(tier: str) -> int:
    rep = Report(
        PID,
        tier,
        "model_checking",
        rule="E4: BFS over event histories (add / satisfiable / eval / batch_eval / min / max signed+unsigned, with and "
        "without extra constraints / solution / is_true / is_false / simplify / downsize / branch / pickle) on a fresh "
        "solver per history (fresh thread => fresh z3 context); every answer compared with the brute-force model set of "
        "the constraints added so far over x,y:BV3, c:Bool; states merged by an over-fine canonical dump of the whole "
        "frontend object graph incl. the Z3 assertion stack; exploration stops below a wrong answer",
    )
    uni = H.universe("bv3")
    ev_full = H.default_events(uni, "full")
    ev_small = [e for e in H.default_events(uni, "small") if e[0] != "add" or e[1] in ("x!=0", "x<u5", "x+y==5", "F")]
    ev_small = [
        e
        for e in ev_small
        if e[0] in ("add", "branch", "simplify", "pickle")
        or e in (("sat", "none"), ("eval", "x", 9, "none"), ("eval", "x", 2, "none"), ("min", "x", "u", "none"), ("max", "x", "s", "none"), ("min", "x", "s", "y<u2"), ("sol", "x", 5, "none"), ("beval", "x,y", 9, "none"))
    ]
    ev_unsat = [("add", "x+y==5"), ("add", "y==x"), ("add", "x<u5"), ("sol", "x", 5, "none"), ("sol", "x", 0, "y<u2"), ("sat", "none"), ("eval", "x", 1, "none"), ("min", "x", "u", "none"), ("sat", "x==6"), ("branch",), ("pickle",), ("simplify",)]
    # optimum-cutting: every add removes exactly one extreme value, so a stale "exhausted" flag or a leftover
    # cached model answers min / max wrongly afterwards
    ev_cut = [("add", k) for k in ("x!=3", "x!=7", "x!=4", "x!=0", "x<u5")] + [(op, "x", sg, "none") for op in ("min", "max") for sg in ("u", "s")] + [("eval", "x", 2, "none"), ("eval", "x", 9, "none")]
    if tier == "quick":
        plan = [
            ("Solver", {}, ev_cut, 4, 2, "cut4"),
            ("Solver", {}, ev_unsat, 4, 3, "unsat4"),
            ("Solver", {}, H.default_events(uni, "small"), 3, 2, ""),
            ("SolverCacheless", {}, ev_small, 4, 2, "small4"),
            ("Solver", {}, ev_small, 4, 2, "small4"),
        ]
    else:
        plan = [
            ("Solver", {}, ev_cut, 5, 3, "cut5"),
            ("SolverCacheless", {}, ev_cut, 4, 3, "cut4"),
            ("Solver", {}, ev_unsat, 6, 3, "unsat6"),
            ("SolverCacheless", {}, ev_unsat, 5, 3, "unsat5"),
            ("Solver", {}, ev_full, 3, 3, ""),
            ("SolverCacheless", {}, ev_full, 3, 3, ""),
            ("Solver", {"reuse": True}, H.default_events(uni, "small"), 3, 2, "reuse"),
            ("SolverCacheless", {"reuse": True}, H.default_events(uni, "small"), 3, 2, "reuse"),
            ("Solver", {}, H.default_events(uni, "small"), 4, 2, "d4"),
            ("Solver", {}, ev_small, 5, 3, "small5"),
            ("SolverCacheless", {}, ev_small, 5, 3, "small5"),
        ]
    import time

    for cls, cfg, events, depth, max_adds, tag in plan:
        t0 = time.time()
        H.explore(rep, PID, "bv3", cls, cfg, events, depth, max_adds=max_adds, tag=tag)
        rep.extra.setdefault("plan_seconds", []).append(f"{cls}[{tag}] depth={depth} events={len(events)}: {time.time() - t0:.1f}s")
    rep.assumptions = [
        "min/max compared as w-bit patterns (the backend path returns signed optima as negative ints, the cache path unsigned)",
        "solution() on unsatisfiable constraints may answer False or raise UnsatError",
        "is_true/is_false checked one-sidedly",
    ]
    return rep.finish()


def replay(path: str) -> int:
    data = json.load(open(path))
    bad = 0
    for c in data["cases"]:
        o = H.replay_history(c["replay"], check_all=False)
        o2 = H.replay_history(c["replay"], check_all=False)
        if o.get("log") != o2.get("log"):
            print("replay: NON-DETERMINISTIC replay", c["case"])
            return 2
        if not o.get("ok"):
            bad += 1
            print(f"VIOLATION property={PID} replay={path}")
            print("  ", c["case"], json.dumps(o.get("failure"), default=str)[:300])
        else:
            print("replay:", c["case"], "holds now")
    return 1 if bad else 0
