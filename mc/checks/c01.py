"""C01 – bitvector / Boolean expressions mean exactly what the written operations say.

E1 traversal with the meaning monitor (inductive truth-table oracle), pattern drivers for the
rewrites that need particular shapes / byte widths, and per-node conformance of the Z3 translation
(ground evaluation of the converted term under every assignment).
"""

from __future__ import annotations

import json

import claripy
from claripy.errors import ClaripyZeroDivisionError

from .. import exprspace, patterns, z3conf
from ..common import Report
from ..exprspace import site_sig
from ..refsem import DenError, show

PID = "C01"


def monitor(space, tr, part, opts):
    part.count("transitions")
    try:
        r = tr.build()
    except ClaripyZeroDivisionError:
        if space.divisor_is_zero(tr):
            part.count("zero_division_accepted")
        else:
            part.fail("zerodiv:" + site_sig(tr), f"w={space.w}|{tr.key}", "ClaripyZeroDivisionError but divisor is not constantly 0")
        return None
    except Exception as e:  # crashes are C04's business; here they only end the path
        part.count("raised_other")
        part.note("raised_types", type(e).__name__)
        return None
    if r is NotImplemented or not isinstance(r, claripy.ast.Base):
        part.count("raised_other")
        return None
    try:
        exp = space.expected(tr)
        got = space.den(r)
    except DenError as e:
        part.oracle_errors.append(f"{tr.key}: {e}")
        return None
    if exp != got:
        i = next(k for k, (a, b) in enumerate(zip(exp, got)) if a != b)
        part.fail(
            site_sig(tr),
            f"w={space.w}|{tr.key}",
            {"built": show(r), "env": space.scope.env(i), "expected": exp[i], "got": got[i], "api": tr.api},
            {"kind": "e1", "w": space.w, "key": tr.key},
        )
    else:
        part.sample({"w": space.w, "transition": tr.key, "built": show(r)}, limit=2)
    return r


def run(tier: str) -> int:
    rep = Report(
        PID,
        tier,
        "model_checking",
        rule="E1: BFS over ASTs reachable by public operators from leaves x,y:BV_w, c:Bool and all constants; "
        "each transition = one public operation with partner operands (variables, all 2^w constants, Python ints, "
        "Boolean leaves); oracle = truth table over ALL assignments, computed inductively from operand tables; "
        "states distinct by hash-consed identity; plus pattern drivers and Z3-translation ground evaluation",
    )
    if tier == "quick":
        cfgs = [dict(w=1, depth=2), dict(w=2, depth=2), dict(w=3, depth=2)]
    else:
        cfgs = [dict(w=1, depth=3), dict(w=2, depth=3), dict(w=3, depth=3), dict(w=4, depth=2)]
    z3conf.refsem_selftest(rep)
    exprspace.run_e1(rep, "mc.checks.c01:monitor", cfgs)
    patterns.run_patterns(rep, "mc.checks.c01:pattern_monitor", tier)
    z3conf.run_z3conf(rep, tier)
    rep.assumptions = [
        "refsem op table = SMT-LIB semantics (cross-checked against Z3 ground evaluation at set-up)",
        "widths 1..4 exhaustively (all constants); wider only through byte-atom pattern drivers",
    ]
    return rep.finish()


def pattern_monitor(ctx, name, built, expected_table, part):
    """called by patterns.py for every generated instance"""
    part.count("transitions")
    part.count("pattern_instances")
    try:
        got = ctx.den(built)
    except DenError as e:
        part.oracle_errors.append(f"{name}: {e}")
        return
    if got != expected_table:
        i = next(k for k, (a, b) in enumerate(zip(expected_table, got)) if a != b)
        part.fail(
            "pattern:" + name.split("|")[0],
            name,
            {"built": show(built), "env": ctx.scope.env(i), "expected": expected_table[i], "got": got[i]},
            {"kind": "pattern", "name": name},
        )


def replay(path: str) -> int:
    with open(path) as f:
        data = json.load(f)
    bad = 0
    for c in data["cases"]:
        rp = c.get("replay") or {}
        if rp.get("kind") == "e1":
            from ..common import Part

            w = rp["w"]
            sp = exprspace.Space(w)
            found = exprspace.find_transition(sp, rp["key"])
            if found is None:
                print(f"replay: transition {rp['key']} not found")
                continue
            p = Part()
            monitor(sp, found, p, {})
            if p.failures:
                bad += 1
                print(f"VIOLATION property={PID} replay={path}")
                print("  ", json.dumps(p.failures[0], default=str)[:600])
            else:
                print(f"replay: {rp['key']} holds now")
    return 1 if bad else 0
