"""C20 – solvers used from several threads answer as if used alone.

E5 at call granularity: 2 (thorough also 3) real threads, each running a short solver history on its OWN
solver objects over SHARED expressions (built before the threads start) and expressions built inside the
threads (hash-consing under contention).  The entry of every function that touches state shared between
threads or thread-local state – the `_tls` accessors of BackendZ3, Backend.convert / _convert cache lookups,
`_abstract_internal`, `z3_solver_sat`, `FullFrontend._get_solver / _add_constraints`, `Base.__new__`,
`_calc_hash`, the `_errored` / truth-cache writers – is a scheduling point.  All schedules with at most one
preemption (thorough: two, at the shared-state points) are executed under a baton scheduler.
Oracle: every answer satisfies the brute-force oracle of C11 and equals the answer the same history gives when
run alone; ownership monitor after every event: the thread's backends.z3._context is its own, and every Z3
object in its conversion caches and in its solver belongs to that context.  A worker process that dies
(crash inside Z3 from mixed contexts) is a violation.
"""

from __future__ import annotations

import json
import os
import pickle
import signal
import sys
import threading
import time

import claripy
import claripy.backends.backend_z3 as bz3
import z3

from .. import histspace as H
from ..common import NCPU, Part, Report, seed
from ..sched import Scheduler, explore_bounded

PID = "C20"


# ---------------------------------------------------------------------------------------------
# scheduling points
# ---------------------------------------------------------------------------------------------


def point_codes(level):
    import claripy.ast.base as base
    import claripy.backends.backend as be
    import claripy.frontend.full_frontend as ff

    codes = set()

    def add(fn):
        f = getattr(fn, "__wrapped__", fn)
        f = getattr(f, "fget", f)
        if hasattr(f, "__code__"):
            codes.add(f.__code__)

    B, Z = be.Backend, bz3.BackendZ3
    names_backend = ["convert", "convert_list", "call", "_call", "is_true", "is_false", "downsize", "eval", "batch_eval", "min", "max", "satisfiable", "solution", "add"]
    names_z3 = [
        "_context", "_ast_cache", "_var_cache", "_sym_cache", "_simplification_cache", "_boolref_tactics", "_object_cache", "_true_cache", "_false_cache",
        "solver", "clone_solver", "_abstract", "_abstract_internal", "_abstract_to_primitive", "_convert", "_add", "add", "_satisfiable", "_batch_eval",
        "_extrema", "_min", "_max", "_primitive_from_model", "_generic_model", "simplify", "BVS", "BVV", "BoolS", "BoolV", "downsize",
    ]
    for n in names_backend:
        if hasattr(B, n):
            add(B.__dict__.get(n, getattr(B, n)))
    for n in names_z3:
        if n in Z.__dict__:
            add(Z.__dict__[n])
        elif hasattr(Z, n):
            add(getattr(Z, n))
    for n, v in Z.__dict__.items():  # every property of BackendZ3 (thread-local accessors, scratch buffers)
        if isinstance(v, property):
            add(v)
    for n, v in B.__dict__.items():
        if isinstance(v, property):
            add(v)
    add(bz3.z3_solver_sat)
    add(base.Base.__new__)
    add(base.Base._calc_hash)
    add(base.Base.make_like)
    F = ff.FullFrontend
    for n in ("_get_solver", "_add_constraints", "_add", "_copy", "downsize", "satisfiable", "batch_eval", "min", "max"):
        if n in F.__dict__:
            add(F.__dict__[n])
    if level == "full":
        for n, v in Z.__dict__.items():
            if n.startswith("_op_raw") or n.startswith("_op_"):
                add(v)
    return codes


# ---------------------------------------------------------------------------------------------
# thread bodies
# ---------------------------------------------------------------------------------------------


def ownership_problem(run):
    """checked by the thread itself: its Z3 context and caches are its own"""
    be = claripy.backends.z3
    ctx = be._context
    me = threading.get_ident()
    reg = run.registry
    prev = reg.setdefault(id(ctx), (me, ctx))  # the context object is kept alive so that its id stays unique
    if prev[0] != me:
        return f"z3 context shared with thread {prev[0]}"
    for name in ("_object_cache",):
        cache = getattr(be, name, None)
        if cache is None:
            continue
        for k, v in list(cache.items())[:400]:
            if isinstance(v, z3.AstRef) and v.ctx is not ctx:
                return f"{name} holds a term of another context"
    for h, (a, zast) in list(be._ast_cache.items())[:400]:
        pass
    s = run.s
    sol = getattr(getattr(s, "_tls", None), "solver", None)
    if isinstance(sol, z3.Solver) and sol.ctx is not ctx:
        return "the frontend's z3 solver belongs to another context"
    return None


def make_body(uni_name, cls, hist, shared, out, i, registry):
    def body(sched, me):
        uni = H.universe(uni_name)
        run = H.Run(uni, cls, {})
        run.registry = registry
        log = []
        for ev in hist:
            if ev[0] == "build":
                # an expression built inside the thread from shared leaves (hash-consing under contention)
                x, y = uni.E["x"], uni.E["y"]
                e = (x + y) ^ (x & claripy.BVV(int(ev[1]), 3))
                e2 = (x + y) ^ (x & claripy.BVV(int(ev[1]), 3))
                if e is not e2:
                    out[i] = dict(failure={"reason": "hash-consing returned two objects for one expression"}, ev=ev)
                    return
                shared.setdefault("built", {}).setdefault(ev[1], e)
                if shared["built"][ev[1]] is not e:
                    out[i] = dict(failure={"reason": "two threads hold different objects for the same expression"}, ev=ev)
                    return
                try:
                    r = run.s.eval(e, 9)
                    vals = sorted(v & 7 for v in r)
                    envs = uni.models(run.ref)
                    t = uni.den(e)
                    V = sorted({t[k] for k in envs})
                    if vals != V[: len(vals)] and not (set(vals) <= set(V) and len(vals) == min(9, len(V))):
                        out[i] = dict(failure={"reason": "eval of thread-built expression wrong", "got": vals, "feasible": V}, ev=ev)
                        return
                    log.append(("build", tuple(vals) if len(V) <= 9 else len(vals)))
                except claripy.errors.UnsatError:
                    log.append(("build", "UNSAT"))
                continue
            if ev[0] == "strdigit":
                # an operation the Z3 backend cannot translate, applied to a leaf that other threads use as well
                S_ = shared["S"]
                try:
                    claripy.SolverStrings().satisfiable(extra_constraints=[claripy.StrIsDigit(S_)])
                    log.append(("strdigit", "answered"))
                except claripy.errors.ClaripyError:
                    log.append(("strdigit", "declined"))
                continue
            if ev[0] == "streval":
                S_ = shared["S"]
                try:
                    s2 = claripy.SolverStrings()
                    s2.add(S_ == claripy.StringV(ev[1]))
                    r = tuple(s2.eval(S_, 2))
                    l = tuple(s2.eval(claripy.StrLen(S_), 2))
                except Exception as e:  # noqa: BLE001
                    out[i] = dict(failure={"reason": f"string query raised {type(e).__name__}: {e}"[:200]}, ev=("streval",))
                    return
                if r != (ev[1],) or l != (len(ev[1]),):
                    out[i] = dict(failure={"reason": "string eval wrong", "got": [r, l]}, ev=("streval",))
                    return
                log.append(("streval", r))
                continue
            ok = H.apply_event(run, ev, check=True)
            if not ok:
                out[i] = dict(failure=run.failure, ev=ev)
                return
            p = ownership_problem(run)
            if p:
                out[i] = dict(failure={"reason": "ownership: " + p}, ev=ev)
                return
        out[i] = dict(log=[a for _, a in run.log] + log)

    return body


DETERMINISTIC = {"sat", "min", "max", "sol", "istrue", "isfalse"}


def comparable(hist, log):
    """the part of an answer log that must be identical in every schedule"""
    out = []
    for ev, a in zip([e for e in hist if e[0] not in ("build", "strdigit", "streval")], log):
        if ev[0] in DETERMINISTIC or a in (("UNSAT",),) or (ev[0] in ("eval", "beval") and int(ev[2]) >= 9):
            out.append(a)
        else:
            out.append(("n", len(a[1]) if isinstance(a, tuple) and len(a) > 1 and isinstance(a[1], tuple) else None))
    return out


# ---------------------------------------------------------------------------------------------
# one configuration = one worker process
# ---------------------------------------------------------------------------------------------

HISTS = {
    "A": [("add", "x<u5"), ("eval", "x", 9, "none"), ("max", "x", "s", "none")],
    "B": [("add", "x+y==5"), ("min", "x", "u", "y<u2"), ("sat", "x==6")],
    "C": [("build", 1), ("add", "x!=0"), ("eval", "x+y", 9, "none")],
    "D": [("add", "x==1|x==6"), ("simplify",), ("eval", "x", 9, "none"), ("branch",), ("sol", "x", 5, "none")],
    "E": [("build", 1), ("add", "c"), ("istrue", "x<u5", "none"), ("max", "x", "u", "none")],
    "F": [("add", "y>u6"), ("beval", "x,y", 9, "none")],
    "G": [("add", "F"), ("sat", "none"), ("eval", "x", 1, "none")],
    "P": [("strdigit",), ("streval", "a")],
    "Q": [("streval", "ab"), ("add", "x!=0"), ("eval", "x", 9, "none")],
    "S": [("add", "x<u5"), ("sat", "none")],
    "T": [("add", "x!=0"), ("min", "x", "u", "none")],
}


def run_config(cfg):
    """-> Part dump"""
    part = Part()
    names = cfg["hists"]
    cls = cfg["cls"]
    codes = point_codes(cfg.get("points", "shared"))
    uni = H.universe("bv3")
    # solo logs (each history alone, in its own thread => own context)
    solo = {}
    for nm in set(names):
        out = {}
        sh = {"S": claripy.StringS("c20s", explicit_name=True)}
        b = make_body("bv3", cls[0], HISTS[nm], sh, out, 0, {})
        t = threading.Thread(target=b, args=(None, 0))
        t.start()
        t.join()
        if "log" not in out.get(0, {}):
            # wrong already when run alone (one thread after the other): reported, and nothing to compare schedules with
            o = out.get(0, {})
            part.fail(f"wrong-answer-run-alone:{'/'.join(cls)}", f"{nm}|{'/'.join(cls)}|alone", {"failure": json.dumps(o.get("failure"), default=str)[:300], "event": str(o.get("ev"))}, {"cfg": cfg})
            solo[nm] = None
        else:
            solo[nm] = comparable(HISTS[nm], out[0]["log"])
    if any(v is None for v in solo.values()):
        return part.dump()

    def run_here(prefix):
        out = {}
        shared = {"S": claripy.StringS("c20s", explicit_name=True)}
        registry = {}
        bodies = [make_body("bv3", cls[i % len(cls)], HISTS[nm], shared, out, i, registry) for i, nm in enumerate(names)]
        s = Scheduler(bodies, codes, prefix=prefix, max_steps=60000, line_events=False)
        s.run()
        # thread bodies that died with an exception
        for i, e in enumerate(s.exc):
            if e is not None and s.violation is None:
                s.violation = ("exception", i, f"{type(e).__name__}: {e}"[:200])
        if s.violation is None:
            for i, nm in enumerate(names):
                o = out.get(i)
                if o is None:
                    s.violation = ("no-result", i)
                    break
                if "failure" in o:
                    s.violation = ("wrong-answer", i, H.ev_label(o["ev"]) if o["ev"][0] not in ("build", "streval") else o["ev"][0], json.dumps(o["failure"], default=str)[:200])
                    break
                if comparable(HISTS[nm], o["log"]) != solo[nm]:
                    s.violation = ("differs-from-solo", i, str(comparable(HISTS[nm], o["log"]))[:150], str(solo[nm])[:150])
                    break
        return s

    class Res:
        pass

    import gc

    from ..sched import Scheduler as _S  # noqa: F401

    stats = {"forked": 0}

    def run_forked(prefix):
        """slow path: the execution runs in a forked child, i.e. from exactly this process state"""
        r, w = os.pipe()
        pid = os.fork()
        if pid == 0:
            os.close(r)
            try:
                s = run_here(prefix)
                data = pickle.dumps(dict(choices=s.choices, points=s.points, enabled_log=s.enabled_log, violation=s.violation))
            except BaseException:  # noqa: BLE001
                import traceback

                data = pickle.dumps(dict(harness_error=traceback.format_exc()[-1200:]))
            with os.fdopen(w, "wb") as fh:
                fh.write(data)
            os._exit(0)
        os.close(w)
        with os.fdopen(r, "rb") as fh:
            data = fh.read()
        _, status = os.waitpid(pid, 0)
        x = Res()
        if not data or os.WIFSIGNALED(status):
            x.choices, x.points, x.enabled_log = list(prefix), [1] * len(prefix), [[0]] * len(prefix)
            x.violation = ("worker-died", os.WTERMSIG(status) if os.WIFSIGNALED(status) else os.WEXITSTATUS(status))
            return x
        d = pickle.loads(data)
        if "harness_error" in d:
            raise RuntimeError(d["harness_error"])
        x.choices, x.points, x.enabled_log, x.violation = d["choices"], d["points"], d["enabled_log"], d["violation"]
        return x

    def make_run(prefix):
        """Executions run in this process with the cyclic collector off (its weakref callbacks would otherwise run at
        allocation-count dependent moments) after warm-up executions have brought the process-wide caches to their
        steady state; should a recorded prefix nevertheless not replay, the execution is repeated in a forked child."""
        gc.collect()  # between executions only (no thread is running): frees the dead threads' Z3 contexts
        try:
            return run_here(prefix)
        except RuntimeError as e:
            if "replay divergence" not in str(e):
                raise
            stats["forked"] += 1
            return run_forked(prefix)

    gc.collect()
    gc.disable()
    for _ in range(3):  # warm-up: conversion / truth / simplification caches reach their steady state
        run_here([])
    t0 = time.time()
    res = explore_bounded(make_run, cfg["bound"], max_executions=cfg.get("max_exec", 100000))
    label = f"{'+'.join(names)}|{'/'.join(cls)}|bound={cfg['bound']}|points={cfg.get('points', 'shared')}"
    part.count("transitions", res["executions"])
    part.count("schedules", res["executions"])
    part.count("states", res["executions"])
    gc.enable()
    part.count("executions_repeated_in_a_forked_child", stats["forked"])
    part.note("configs", f"{label}: {res['executions']} schedules, <= {res['points_max']} decision points, {time.time() - t0:.0f}s, complete={res['complete']}, re-run forked={stats['forked']}")
    if not res["complete"] and not res["violations"]:
        part.capped = f"{label}: stopped after {res['executions']} schedules"
    for choices, v in res["violations"]:
        part.fail(
            f"{v[0]}:{'/'.join(cls)}",
            f"{label}|schedule=" + "".join(str(c) if c < 10 else "(%d)" % c for c in choices).rstrip("0"),
            {"violation": [str(x)[:200] for x in v]},
            {"cfg": cfg, "choices": choices},
        )
    part.sample({"config": label, "schedules": res["executions"], "decision_points": res["points_max"]}, limit=1)
    return part.dump()


# ---------------------------------------------------------------------------------------------
# crash-safe parallel map (a worker that dies is itself an observation)
# ---------------------------------------------------------------------------------------------


def forkmap(fn, items, timeout_s=3000):
    pending = list(enumerate(items))
    running = {}
    results = {}
    while pending or running:
        while pending and len(running) < NCPU:
            idx, it = pending.pop(0)
            r, w = os.pipe()
            pid = os.fork()
            if pid == 0:
                os.close(r)
                try:
                    data = pickle.dumps(("ok", fn(it)))
                except BaseException as e:  # noqa: BLE001
                    import traceback

                    data = pickle.dumps(("exc", traceback.format_exc()[-1500:]))
                with os.fdopen(w, "wb") as fh:
                    fh.write(data)
                os._exit(0)
            os.close(w)
            running[pid] = (idx, r, time.time())
        # reap
        done = []
        for pid, (idx, r, t0) in running.items():
            p, status = os.waitpid(pid, os.WNOHANG)
            if p == 0:
                if time.time() - t0 > timeout_s:
                    os.kill(pid, signal.SIGKILL)
                    os.waitpid(pid, 0)
                    os.close(r)
                    results[idx] = ("timeout", None)
                    done.append(pid)
                continue
            with os.fdopen(r, "rb") as fh:
                data = fh.read()
            if os.WIFSIGNALED(status) or not data:
                results[idx] = ("died", os.WTERMSIG(status) if os.WIFSIGNALED(status) else os.WEXITSTATUS(status))
            else:
                results[idx] = pickle.loads(data)
            done.append(pid)
        for pid in done:
            del running[pid]
        if not done:
            time.sleep(0.05)
    return [results[i] for i in range(len(items))]


def plan(tier):
    cfgs = []
    S = ["Solver"]
    if tier == "quick":
        pairs = [("A", "B"), ("C", "E"), ("D", "F"), ("G", "A"), ("C", "C"), ("P", "Q")]
        for p in pairs:
            cfgs.append(dict(hists=list(p), cls=S, bound=1))
        cfgs.append(dict(hists=["S", "T"], cls=["SolverCacheless"], bound=1))
        cfgs.append(dict(hists=["S", "T"], cls=["SolverComposite"], bound=1))
        cfgs.append(dict(hists=["S", "T", "S"], cls=S, bound=1, max_exec=600))
    else:
        names = ["A", "B", "C", "D", "E", "F", "G", "P", "Q"]
        for i, a in enumerate(names):
            for b in names[i:]:
                cfgs.append(dict(hists=[a, b], cls=S, bound=1))
        for p in (("A", "B"), ("C", "E"), ("D", "F")):
            for c in (["SolverCacheless"], ["SolverComposite"], ["SolverHybrid"], ["Solver", "SolverComposite"]):
                cfgs.append(dict(hists=list(p), cls=c, bound=1))
        # two preemptions: the number of schedules grows quadratically with the ~240 decision points (one core each)
        for p in (("S", "T"), ("G", "S")):
            cfgs.append(dict(hists=list(p), cls=S, bound=2, max_exec=8000))
        for p in (("S", "T", "S"), ("C", "C", "T"), ("S", "G", "T")):
            cfgs.append(dict(hists=list(p), cls=S, bound=1, max_exec=6000))
        cfgs.append(dict(hists=["S", "T"], cls=S, bound=1, points="full"))
        cfgs.append(dict(hists=["C", "E"], cls=S, bound=1, points="full", max_exec=6000))
    return cfgs


def run(tier: str) -> int:
    rep = Report(
        PID,
        tier,
        "model_checking",
        rule="real threads under a baton scheduler; scheduling point = entry of every function of Backend / BackendZ3 / "
        "FullFrontend / Base that touches shared or thread-local state (~75 code objects; 'full' adds every Z3 op "
        "handler); every schedule with at most 1 preemption (some configurations 2) is executed to completion; each "
        "thread runs a solver history on its own solver over shared expressions and builds expressions itself; oracle: "
        "C11's brute-force answers, equality with the history run alone, ownership of the Z3 context / caches / solver",
    )
    cfgs = plan(tier)
    if seed():
        import random

        random.Random(seed()).shuffle(cfgs)
    for cfg, (status, res) in zip(cfgs, forkmap(run_config, cfgs)):
        label = f"{'+'.join(cfg['hists'])}|{'/'.join(cfg['cls'])}|bound={cfg['bound']}"
        if status == "ok":
            rep.merge(res)
        elif status == "died":
            rep.fail(f"worker-died:{'/'.join(cfg['cls'])}", label, {"signal_or_status": res}, {"cfg": cfg})
        elif status == "timeout":
            rep.exhaustive = False
            rep.extra.setdefault("caps", []).append(f"{label}: time limit")
        elif "/claripy/" in str(res).split("File")[-1] or "z3" in str(res).split("File")[-1]:
            # the history raised inside claripy / z3 while being run alone in a fresh thread after other threads had
            # run theirs (solo reference / warm-up): still several threads, one after the other
            rep.fail(f"exception-in-sequential-threads:{'/'.join(cfg['cls'])}", label, {"traceback_tail": str(res)[-600:]}, {"cfg": cfg})
        else:
            rep.oracle_errors.append(f"{label}: {res}")
    rep.assumptions = [
        "the cooperative scheduler makes each call between two scheduling points atomic: data races inside Z3 or at bytecode granularity are out of reach (no race detector for CPython here); the ownership monitor checks the isolation invariant directly instead",
        "2-3 threads, histories of 2-5 events, <= 1-2 preemptions; 16 threads / long random histories are not explored",
    ]
    return rep.finish()


def replay(path: str) -> int:
    data = json.load(open(path))
    bad = 0
    for c in data["cases"][:3]:
        rp = c.get("replay") or {}
        cfg = rp.get("cfg")
        if not cfg:
            continue
        cfg = dict(cfg)
        cfg["max_exec"] = 3000
        (status, res), = forkmap(run_config, [cfg])
        if status != "ok" or res["failures"]:
            bad += 1
            print(f"VIOLATION property={PID} replay={path}")
            print("  ", c["case"][:200])
        else:
            print("replay:", c["case"][:120], "holds now")
    return 1 if bad else 0
