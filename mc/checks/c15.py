"""C15 – merge, combine and split have exactly their documented meaning.

States = solvers reached by short histories (adds, optionally a cache-filling query), with or without
a common ancestor.  For every pair (triples for 3-way merges) and every tuple of merge conditions the
model set of the result – read back through the result's own exhaustive batch_eval/satisfiable – is
compared with the specification computed by brute force:  merge = U_i (cond_i & M_i); with a common
ancestor = M_anc & (cond_0 | cond_1 ...); combine = intersection; split = variable-disjoint groups,
same multiset of conjuncts, conjunction equivalent.
"""

from __future__ import annotations

import collections
import itertools
import threading

import claripy
from claripy.errors import UnsatError

from .. import histspace as H
from ..common import Part, Report, pmap

PID = "C15"

KS = ["x!=0", "x<u5", "x+y==5", "c", "x==3", "y>u6"]
CONDS = {"T": None, "c": None, "!c": None, "x==1": None}


def _conds(uni):
    x = uni.E["x"]
    c = uni.B["c"]
    return {"T": claripy.true(), "c": c, "!c": claripy.Not(c), "x==1": x == 1}


def model_set(uni, s):
    """the set of assignments (env indices) a solver admits, read through its own public queries"""
    x, y, c = uni.E["x"], uni.E["y"], uni.B["c"]
    cb = claripy.If(c, claripy.BVV(1, 1), claripy.BVV(0, 1))
    if not s.satisfiable():
        return frozenset()
    try:
        rows = s.batch_eval([x, y, cb], 200)
    except UnsatError:
        return frozenset()
    out = set()
    for vx, vy, vc in rows:
        out.add((vx & 7) | ((vy & 7) << 3) | ((vc & 1) << 6))
    return frozenset(out)


def build(uni, cls, cfg, spec, base=None):
    """spec: tuple of labels; 'q' = a cache-filling query"""
    s = H.make_solver(cls, cfg) if base is None else base.branch()
    for k in spec:
        if k == "q":
            try:
                s.eval(uni.E["x"], 9)
            except UnsatError:
                pass
        elif k == "m":
            try:
                s.max(uni.E["x"])
            except UnsatError:
                pass
        elif isinstance(k, tuple):  # several constraints in ONE add() call
            s.add([uni.K[j] for j in k])
        else:
            s.add(uni.K[k])
    return s


def adds_of(spec):
    out = []
    for k in spec:
        if isinstance(k, tuple):
            out.extend(k)
        elif k not in ("q", "m"):
            out.append(k)
    return out


def spec_label(sp):
    return ",".join("[" + "+".join(k) + "]" if isinstance(k, tuple) else k for k in sp)


def conjuncts(cs):
    out = []
    for c in cs:
        out.extend(c.args if c.op == "And" else [c])
    return out


def _case(args):
    kind, cls, cfg, data = args
    out = {}

    def body():
        part = Part()
        try:
            uni = H.universe("bv3")
            conds = _conds(uni)
            ctab = {k: uni.den(v) for k, v in conds.items()}
            allenv = range(uni.N)
            for item in data:
                part.count("transitions")
                rp = {"kind": kind, "cls": cls, "cfg": cfg, "item": item}
                if kind in ("merge", "merge_anc", "combine"):
                    anc_spec, specs, cnames = item
                    anc = build(uni, cls, cfg, anc_spec) if anc_spec is not None else None
                    ss = [build(uni, cls, cfg, sp, base=anc) if anc is not None else build(uni, cls, cfg, sp) for sp in specs]
                    Ms = [set(uni.models((adds_of(anc_spec) if anc_spec else []) + adds_of(sp))) for sp in specs]
                    case = f"{cls}|{kind}|anc={anc_spec}|" + "|".join(spec_label(sp) for sp in specs) + "|conds=" + ",".join(cnames)
                    try:
                        if kind == "combine":
                            r = ss[0].combine(ss[1:])
                            exp = set.intersection(*Ms)
                        elif kind == "merge":
                            r = ss[0].merge(ss[1:], [conds[c] for c in cnames])[1]
                            exp = set()
                            for M, cn in zip(Ms, cnames):
                                exp |= {i for i in M if ctab[cn][i]}
                        else:
                            r = ss[0].merge(ss[1:], [conds[c] for c in cnames], common_ancestor=anc)[1]
                            Ma = set(uni.models(adds_of(anc_spec)))
                            exp = {i for i in Ma if any(ctab[cn][i] for cn in cnames)}
                        got = model_set(uni, r)
                    except Exception as e:
                        part.fail(f"{cls}:{kind}:raise:{type(e).__name__}", case, str(e)[:200], rp)
                        continue
                    if got != frozenset(exp):
                        part.fail(f"{cls}:{kind}", case, {"expected_models": len(exp), "got_models": len(got), "missing": sorted(exp - got)[:5], "extra": sorted(got - exp)[:5]}, rp)
                    else:
                        part.sample({"case": case, "models": len(got)}, limit=1)
                    # approximate queries on the result must still cover every model (bound-based replacements of the
                    # operands must not survive into the merged solver)
                    if cls == "SolverHybrid" and exp:
                        xs = sorted({i & 7 for i in exp})
                        try:
                            mx = r.max(uni.E["x"], exact=False)
                            mn = r.min(uni.E["x"], exact=False)
                            if (mx & 7) < xs[-1] or (mn & 7) > xs[0]:
                                part.fail(f"{cls}:{kind}:approximate-bounds-exclude", case, {"x_values": xs, "approx_min": mn, "approx_max": mx}, rp)
                        except claripy.errors.ClaripyError:
                            part.count("approximate_query_declined")
                    # the operands must be unchanged
                    for sp, s_, M in zip(specs, ss, Ms):
                        try:
                            if model_set(uni, s_) != frozenset(M):
                                part.fail(f"{cls}:{kind}:operand-changed", case, {"operand": sp})
                                break
                        except Exception:
                            pass
                    # ... and so must the common ancestor (merge builds on a branch of it, never on the ancestor itself)
                    if anc is not None:
                        try:
                            if model_set(uni, anc) != frozenset(uni.models(adds_of(anc_spec))):
                                part.fail(f"{cls}:{kind}:ancestor-changed", case, {"ancestor": anc_spec})
                        except Exception:  # noqa: BLE001
                            pass
                else:  # split
                    spec = item
                    s = build(uni, cls, cfg, spec)
                    M = set(uni.models(adds_of(spec)))
                    case = f"{cls}|split|" + spec_label(spec)
                    try:
                        before = list(s.constraints)
                        rs = s.split()
                    except Exception as e:
                        part.fail(f"{cls}:split:raise:{type(e).__name__}", case, str(e)[:200])
                        continue
                    vs = [set(r.variables) - {"CONCRETE"} for r in rs]
                    if any(a & b for a, b in itertools.combinations(vs, 2)):
                        part.fail(f"{cls}:split:shared-variables", case, [sorted(v) for v in vs], rp)
                        continue
                    try:
                        got = set(allenv)
                        for r in rs:
                            for c in r.constraints:
                                t = uni.den(c)
                                got = {i for i in got if t[i]}
                    except Exception as e:
                        part.count("split_constraints_not_interpretable")
                        continue
                    if got != M:
                        part.fail(f"{cls}:split:not-equivalent", case, {"expected_models": len(M), "got_models": len(got)}, rp)
                        continue
                    if "Composite" not in cls:
                        a = collections.Counter(c.hash() for c in conjuncts(before))
                        b = collections.Counter(c.hash() for r in rs for c in conjuncts(r.constraints))
                        if a != b:
                            part.fail(f"{cls}:split:conjuncts", case, {"before": len(a), "after": len(b)}, rp)
                    # each part answers for itself
                    try:
                        prod = set(allenv)
                        for r in rs:
                            if not r.satisfiable():
                                prod = set()
                        if bool(prod) != bool(M):
                            part.fail(f"{cls}:split:sat-differs", case, None)
                    except Exception as e:
                        part.fail(f"{cls}:split:raise:{type(e).__name__}", case, str(e)[:200])
        except BaseException:
            import traceback

            part.oracle_errors.append(traceback.format_exc()[-1200:])
        out.update(part.dump())

    t = threading.Thread(target=body)
    t.start()
    t.join()
    return out


def specs_for(tier, with_q=True):
    out = [()]
    for k in KS:
        out.append((k,))
    if tier == "quick":
        out += [("x!=0", "x<u5"), ("x+y==5", "c"), ("x==3", "x!=0"), ("c", "y>u6")]
        out += [("x!=0", "q"), ("x+y==5", "q"), ("c", "q"), ("x<u5", "m"), ("x+y==5", "x<u5", "q")]
        # receivers / operands already known to be unsatisfiable (syntactically, and only after a query)
        out += [("x==3", "x==5"), ("x==3", "x<u2", "q")]
        return out
    out += list(itertools.permutations(KS, 2))
    out += [("x==3", "x==5"), ("x==3", "x<u2", "q")]
    if with_q:
        out += [(*sp, "q") for sp in out[1:8]] + [(*sp, "m") for sp in out[1:4]]
    return out


def run(tier: str) -> int:
    rep = Report(
        PID,
        tier,
        "model_checking",
        rule="all pairs (3-way: a family of triples) of solver states built by <=2 adds (+ optional cache-filling "
        "eval/max) with and without a common ancestor, every tuple of merge conditions over {true, c, Not(c), x==1}; "
        "merge / merge-with-ancestor / combine / split on every class that implements them; result model set read back "
        "through the result's own satisfiable+batch_eval over all 128 assignments and compared with the brute-force "
        "specification; operands re-read afterwards",
    )
    classes = [("Solver", {}), ("SolverCacheless", {}), ("SolverComposite", {}), ("SolverHybrid", {})]
    # SolverReplacement is not included: the result's model set is read through the result's own queries, and that
    # class is not exact (C13 lists it) - its merge is covered by the approximate-bounds check on SolverHybrid below
    cond_pairs = [("T", "T"), ("c", "!c"), ("c", "x==1"), ("x==1", "T")]
    specs = specs_for(tier)
    small = [sp for sp in specs if len(adds_of(sp)) <= 1]
    items = []
    nstates = 0
    for cls, cfg in classes:
        pairs = list(itertools.product(specs, specs))
        nstates += len(specs)
        work = []
        for a, b in pairs:
            for cp in cond_pairs if tier == "thorough" else cond_pairs[1:3] + cond_pairs[:1]:
                work.append((None, (a, b), cp))
        for i in range(0, len(work), 60):
            items.append(("merge", cls, cfg, work[i : i + 60]))
        work = [(None, (a, b), ()) for a, b in pairs]
        for i in range(0, len(work), 80):
            items.append(("combine", cls, cfg, work[i : i + 80]))
        # common ancestor
        ancs = [(), ("x!=0",), ("x+y==5", "q"), ("c",)]
        work = []
        for anc in ancs:
            for a in small:
                for b in small:
                    for cp in cond_pairs[1:3]:
                        work.append((anc, (a, b), cp))
        for i in range(0, len(work), 60):
            items.append(("merge_anc", cls, cfg, work[i : i + 60]))
        # 3-way merges of siblings of a common root (composite: shared / unshared children)
        work = []
        tri = [(), ("y>u6",), ("x<u5",), ("x==3", "q")]
        for anc in [("x!=0",), ("x+y==5",), ()]:
            for a, b, c3 in itertools.product(tri, repeat=3):
                for cp in [("c", "!c", "x==1"), ("T", "c", "!c")]:
                    work.append((anc, (a, b, c3), cp))
            for a, b in itertools.product(tri, repeat=2):
                for cp in [("c", "!c"), ("c", "x==1"), ("x==1", "T")]:
                    work.append((anc, (a, b), cp))
        for i in range(0, len(work), 60):
            items.append(("merge3", cls, cfg, work[i : i + 60]))
        # combine of three: two of the others share a variable the receiver does not have, all solved once
        c3 = [("c", "q"), ("x<u5", "q"), ("y>u6", "q"), ("y<u2", "q"), ("y==2", "q"), ("x!=0",), ()]
        if tier == "thorough":
            c3 += [("x+y==5", "q"), ("y==2", "m"), ("c",)]
        work = [(None, t, ()) for t in itertools.product(c3, repeat=3)]
        for i in range(0, len(work), 60):
            items.append(("combine", cls, cfg, work[i : i + 60]))
        # split with a conjunct that bridges two groups formed by earlier conjuncts, one by one and in one add()
        bridge = []
        for trio in (("x<u5", "y>u6", "x+y==5"), ("x!=0", "y<u2", "y==x"), ("x==3", "y==2", "x+y==5"), ("c", "x<u5", "y>u6", "x+y==5")):
            for perm in itertools.permutations(trio):
                bridge.append(perm)
                bridge.append((perm,))
                bridge.append((*perm, "q"))
        split_specs = specs + bridge
        for i in range(0, len(split_specs), 20):
            items.append(("split", cls, cfg, split_specs[i : i + 20]))
    if True:
        # merge on the hybrid solver (exact model set + approximate bounds of the result)
        hs = [("x<u5",), ("x<u2",), ("x==3",), (), ("x!=0", "q"), ("x<u5", "q"), ("y>u6",)]
        work = [(None, (a, b), cp) for a, b in itertools.product(hs, hs) for cp in (("c", "!c"), ("T", "T"), ("c", "x==1"))]
        for i in range(0, len(work), 30):
            items.append(("merge", "SolverHybrid", {}, work[i : i + 30]))
    for res in pmap(_case3_dispatch, items):
        rep.merge(res)
    rep.counts["states"] = nstates
    rep.assumptions = ["the result's model set is read through its own satisfiable()/batch_eval (exact classes; C11 decides those)"]
    return rep.finish()


def _case3_dispatch(args):
    kind, cls, cfg, data = args
    if kind == "merge3":
        return _case3(cls, cfg, data)
    return _case(args)


def _case3(cls, cfg, data):
    """3-way merge of siblings WITHOUT passing the ancestor (composite merges shared children itself)"""
    out = {}

    def body():
        part = Part()
        try:
            uni = H.universe("bv3")
            conds = _conds(uni)
            ctab = {k: uni.den(v) for k, v in conds.items()}
            for anc_spec, specs, cnames in data:
                part.count("transitions")
                anc = build(uni, cls, cfg, anc_spec)
                ss = [build(uni, cls, cfg, sp, base=anc) for sp in specs]
                Ms = [set(uni.models(adds_of(anc_spec) + adds_of(sp))) for sp in specs]
                case = f"{cls}|merge3|anc={anc_spec}|" + "|".join(",".join(sp) for sp in specs) + "|conds=" + ",".join(cnames)
                try:
                    r = ss[0].merge(ss[1:], [conds[c] for c in cnames])[1]
                    exp = set()
                    for M, cn in zip(Ms, cnames):
                        exp |= {i for i in M if ctab[cn][i]}
                    got = model_set(uni, r)
                except Exception as e:
                    part.fail(f"{cls}:merge3:raise:{type(e).__name__}", case, str(e)[:200])
                    continue
                if got != frozenset(exp):
                    part.fail(f"{cls}:merge3", case, {"expected_models": len(exp), "got_models": len(got), "missing": sorted(exp - got)[:5], "extra": sorted(got - exp)[:5]}, {"kind": "merge3", "cls": cls, "cfg": cfg, "item": (anc_spec, specs, cnames)})
        except BaseException:
            import traceback

            part.oracle_errors.append(traceback.format_exc()[-1200:])
        out.update(part.dump())

    t = threading.Thread(target=body)
    t.start()
    t.join()
    return out


def _tup(x):
    return tuple(_tup(y) for y in x) if isinstance(x, list) else x


def replay(path: str) -> int:
    import json

    data = json.load(open(path))
    bad = 0
    for c in data["cases"]:
        rp = c.get("replay")
        if not rp:
            print("replay: no payload recorded for", c["case"])
            continue
        item = _tup(rp["item"])
        if rp["kind"] == "merge3":
            res = _case3(rp["cls"], rp["cfg"], [item])
        else:
            res = _case((rp["kind"], rp["cls"], rp["cfg"], [item]))
        hit = [f for f in res.get("failures", []) if f["case"] == c["case"]]
        if hit:
            bad += 1
            print(f"VIOLATION property={PID} replay={path}")
            print("  ", c["case"], str(hit[0]["detail"])[:200])
        else:
            print("replay:", c["case"], "holds now")
    return 1 if bad else 0
