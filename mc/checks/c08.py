"""C08 – substitution, canonicalisation and the ITE utilities preserve meaning.

Inputs are E1 states (every AST reachable by one public operation from the leaves and constants, plus
a family of depth-2 states and a generator of nested If trees).  For every input e:
  replace(e, old, new)      for EVERY distinct sub-AST `old` of e and every `new` of the same sort from the
                            partner alphabet; oracle = node-by-node interpretation of e in which the node `old`
                            denotes den(new) (simultaneous substitution: `new` itself is not rewritten);
  replace_dict              with the swap map {x:y, y:x}, two-entry maps and maps that contain a sub-AST key;
  canonicalize()            table of the result, read with canonical_k bound to the variable it replaced,
                            equals the table of e; the map is injective;
  identical(a, b)           for all pairs of a pool: True only if some renaming of the variables makes the
                            tables equal (all renamings of x, y tried);
  excavate_ite / burrow_ite equal tables, called twice and in both orders (they memoise);
  ite_cases / ite_dict / reverse_ite_cases  against "first matching case wins, default otherwise";
  chop / get_byte / get_bytes               Concat of the pieces == original, bytes == big-endian bytes.
"""

from __future__ import annotations

import itertools
import json

import claripy
from claripy.errors import ClaripyError

from .. import exprspace, shadow
from ..common import Part, Report, pmap
from ..refsem import Den, DenError, Scope, mask, show

PID = "C08"


# ---------------------------------------------------------------------------------------------
# input pools
# ---------------------------------------------------------------------------------------------


def if_trees(space, depth):
    """nested If trees of depth <= depth over 2 conditions and 3 leaves"""
    x, y = space.bvs[0], space.bvs[1]
    c = space.bools[0]
    d = claripy.ULT(x, y)
    leaves = [x, y, claripy.BVV(1 & mask(space.w), space.w)]
    level = list(leaves)
    out = []
    for _ in range(depth):
        nxt = []
        for cond in (c, d, claripy.Not(c)):
            for t, f in itertools.product(level[:6], level[:6]):
                try:
                    nxt.append(claripy.If(cond, t, f))
                except ClaripyError:
                    pass
        # de-duplicate by identity, keep order
        seen = set()
        uniq = []
        for e in nxt:
            if id(e) not in seen:
                seen.add(id(e))
                uniq.append(e)
        out += uniq
        level = uniq + leaves
    # operations over If trees (what excavate / burrow act on)
    ops = []
    for e in out[:40]:
        ops += [e + 1, e + x, e & y, claripy.Concat(e, x)[space.w - 1 : 0] if space.w > 1 else e, ~e, e == y, claripy.ULT(e, 1), claripy.If(e == x, e, y)]
    # If whose branches use the same variadic operator with different operand counts (burrow_ite)
    import operator

    one = claripy.BVV(1 & mask(space.w), space.w)
    atoms = [x, y, one, x ^ y]
    var = []
    for f in (operator.add, operator.and_, operator.or_, operator.xor, operator.mul):
        for a, b, d, e in itertools.product(atoms, repeat=4):
            try:
                t2 = f(a, b)
                t3 = f(f(a, d), e)
                for cond in (c, d if isinstance(d, claripy.ast.Bool) else claripy.ULT(x, y)):
                    var.append(claripy.If(cond, t2, t3))
                    var.append(claripy.If(cond, t3, t2))
            except ClaripyError:
                pass
    # two Ifs whose conditions have the same shape over DIFFERENT variables, combined by one operation (excavate_ite
    # may merge Ifs only on the very same condition)
    k0, k1 = claripy.BVV(0, space.w), one
    two = []
    for cx_, cy_ in ((claripy.ULT(x, one), claripy.ULT(y, one)), (x == k0, y == k0), (claripy.UGT(x, k0), claripy.UGT(y, k0))):
        for (a1, b1), (a2, b2) in itertools.product(((k0, one), (x, k0), (one, y)), repeat=2):
            i1, i2 = claripy.If(cx_, a1, b1), claripy.If(cy_, a2, b2)
            for f in (operator.add, operator.xor, operator.and_, lambda p_, q_: claripy.Concat(p_, q_), lambda p_, q_: p_ == q_, lambda p_, q_: claripy.ULT(p_, q_)):
                try:
                    two.append(f(i1, i2))
                except ClaripyError:
                    pass
    seen = set()
    uniq = []
    for e_ in two:
        if id(e_) not in seen:
            seen.add(id(e_))
            uniq.append(e_)
    out = out + uniq
    seen = set()
    uniq = []
    for e_ in var:
        if id(e_) not in seen and e_.op == "If":
            seen.add(id(e_))
            uniq.append(e_)
    return out + ops + uniq[:: max(1, len(uniq) // 240)]


def make_pool(space, depth2_stride):
    level0 = list(space.leaves()) + [claripy.BVV(c, space.w) for c in space.consts(space.w)]
    seen = {id(s): s for s in level0}
    l1 = []
    for s in level0:
        for tr in space.transitions(s, full=True):
            try:
                r = tr.build()
            except Exception:  # noqa: BLE001
                continue
            if isinstance(r, claripy.ast.Base) and id(r) not in seen:
                seen[id(r)] = r
                l1.append(r)
    l2 = []
    for s in l1[::depth2_stride]:
        for tr in space.transitions(s, full=False):
            try:
                r = tr.build()
            except Exception:  # noqa: BLE001
                continue
            if isinstance(r, claripy.ast.Base) and id(r) not in seen:
                seen[id(r)] = r
                l2.append(r)
    it = [e for e in if_trees(space, 2) if id(e) not in seen]
    for e in it:
        seen[id(e)] = e
    return level0, l1, l2, it


def subasts(e):
    out, seen, todo = [], set(), [e]
    while todo:
        a = todo.pop()
        if id(a) in seen:
            continue
        seen.add(id(a))
        out.append(a)
        todo.extend(x for x in a.args if isinstance(x, claripy.ast.Base))
    return out


def news_for(space, old):
    if isinstance(old, claripy.ast.BV):
        n = old.length
        outs = [claripy.BVV(0, n), claripy.BVV(mask(n), n)]
        if n == space.w:
            x, y = space.bvs[0], space.bvs[1]
            outs += [x, y, x + 1, claripy.If(space.bools[0], y, claripy.BVV(1 & mask(n), n)), x ^ y]
        return [o for o in outs if o is not old]
    if isinstance(old, claripy.ast.Bool):
        x, y = space.bvs[0], space.bvs[1]
        outs = [claripy.true(), claripy.false(), space.bools[0], claripy.Not(space.bools[0]), x == y, claripy.ULT(x, 1)]
        return [o for o in outs if o is not old]
    return []


def den_subst(space, e, mapping):
    """table of e where each AST in mapping (old -> new) denotes den(new) wherever the object `old` occurs"""
    d = Den(space.scope)
    for old, new in mapping:
        d.memo[id(old)] = space.den(new)
        d.keep.append(old)
    return d(e)


# ---------------------------------------------------------------------------------------------
# per-input checks
# ---------------------------------------------------------------------------------------------


def check_replace(space, e, part, tag):
    key = show(e)
    for old in subasts(e):
        for new in news_for(space, old):
            part.count("transitions")
            part.count("replace_calls")
            case = f"w={space.w}|replace|{key}|{show(old)}->{show(new)}"
            try:
                exp = den_subst(space, e, [(old, new)])
            except DenError as ex:
                part.oracle_errors.append(f"{case}: {ex}")
                continue
            try:
                r = claripy.replace(e, old, new)
                got = space.den(r)
            except ClaripyError as ex:
                # a substitution may legitimately fold into a concrete division by zero
                if type(ex).__name__ == "ClaripyZeroDivisionError":
                    part.count("zero_division")
                    continue
                part.fail(f"replace:raised:{type(ex).__name__}", case, str(ex)[:160], {"kind": "replace", "w": space.w})
                continue
            except DenError as ex:
                part.oracle_errors.append(f"{case}: {ex}")
                continue
            except Exception as ex:  # noqa: BLE001
                part.fail(f"replace:raised:{type(ex).__name__}", case, str(ex)[:160], {"kind": "replace", "w": space.w})
                continue
            if got != exp:
                i = next(k for k, (a, b) in enumerate(zip(exp, got)) if a != b)
                part.fail(
                    f"replace:wrong:{'leaf' if old.is_leaf() else 'inner'}:{e.op}",
                    case,
                    {"result": show(r), "env": space.scope.env(i), "expected": exp[i], "got": got[i]},
                    {"kind": "replace", "w": space.w},
                )
    # replace_dict: swap, two entries, a sub-AST key together with a leaf key
    x, y = space.bvs[0], space.bvs[1]
    c = space.bools[0]
    maps = [
        ("swap", [(x, y), (y, x)]),
        ("x->x+1,y->0", [(x, x + 1), (y, claripy.BVV(0, space.w))]),
        ("x->y,c->!c", [(x, y), (c, claripy.Not(c))]),
    ]
    inner = [a for a in subasts(e) if not a.is_leaf() and a is not e and isinstance(a, claripy.ast.BV) and a.length == space.w]
    if inner:
        maps.append(("inner->x,x->y", [(inner[0], x), (x, y)]))
    for name, m in maps:
        part.count("transitions")
        part.count("replace_dict_calls")
        case = f"w={space.w}|replace_dict|{key}|{name}"
        try:
            exp = den_subst(space, e, m)
            r = claripy.replace_dict(e, {o.hash(): n for o, n in m})
            got = space.den(r)
        except DenError as ex:
            part.oracle_errors.append(f"{case}: {ex}")
            continue
        except ClaripyError as ex:
            if type(ex).__name__ == "ClaripyZeroDivisionError":
                continue
            part.fail(f"replace_dict:raised:{type(ex).__name__}", case, str(ex)[:160])
            continue
        except Exception as ex:  # noqa: BLE001
            part.fail(f"replace_dict:raised:{type(ex).__name__}", case, str(ex)[:160])
            continue
        if got != exp:
            i = next(k for k, (a, b) in enumerate(zip(exp, got)) if a != b)
            part.fail(f"replace_dict:wrong:{name}", case, {"result": show(r), "env": space.scope.env(i), "expected": exp[i], "got": got[i]})


def check_canonicalize(space, e, part):
    part.count("transitions")
    part.count("canonicalize_calls")
    case = f"w={space.w}|canonicalize|{show(e)}"
    try:
        var_map, counter, r = e.canonicalize()
    except ClaripyError as ex:
        if type(ex).__name__ == "ClaripyZeroDivisionError":
            return
        part.fail(f"canonicalize:raised:{type(ex).__name__}", case, str(ex)[:160])
        return
    except Exception as ex:  # noqa: BLE001
        part.fail(f"canonicalize:raised:{type(ex).__name__}", case, str(ex)[:160])
        return
    # canonical variable -> original variable (by hash)
    by_hash = {v.hash(): v for v in space.leaves()}
    names = {}
    for h, cv in var_map.items():
        if h not in by_hash:
            continue
        names.setdefault(cv.args[0], []).append(by_hash[h].args[0])
    if any(len(v) > 1 for v in names.values()):
        part.fail("canonicalize:map-not-injective", case, {"map": {k: v for k, v in names.items()}})
        return
    tabs = {n: (space.scope.field[o[0]][1], space.scope.var_table(o[0])) for n, o in names.items()}
    # variables that were not renamed keep their own tables
    for n, (off, w) in space.scope.field.items():
        tabs.setdefault(n, (w, space.scope.var_table(n)))
    ts = shadow.TableScope(tabs)
    try:
        got = Den(ts)(r)
        exp = space.den(e)
    except DenError as ex:
        part.fail("canonicalize:uninterpretable", case, str(ex)[:160])
        return
    if got != exp:
        i = next(k for k, (a, b) in enumerate(zip(exp, got)) if a != b)
        part.fail("canonicalize:wrong", case, {"result": show(r), "env": space.scope.env(i), "expected": exp[i], "got": got[i]})


def check_canonicalize_threaded(space, e1, e2, part):
    """canonicalize e1, then e2 with the returned map and counter: one consistent, injective renaming of both"""
    part.count("transitions")
    part.count("canonicalize_threaded_calls")
    case = f"w={space.w}|canonicalize-threaded|{show(e1)}|then|{show(e2)}"
    try:
        vm, ctr, r1 = e1.canonicalize()
        vm, ctr, r2 = e2.canonicalize(var_map=vm, counter=ctr)
    except ClaripyError as ex:
        if type(ex).__name__ == "ClaripyZeroDivisionError":
            return
        part.fail(f"canonicalize:raised:{type(ex).__name__}", case, str(ex)[:160])
        return
    except Exception as ex:  # noqa: BLE001
        part.fail(f"canonicalize:raised:{type(ex).__name__}", case, str(ex)[:160])
        return
    by_hash = {v.hash(): v for v in space.leaves()}
    names = {}
    for h, cv in vm.items():
        if h in by_hash:
            names.setdefault(cv.args[0], []).append(by_hash[h].args[0])
    if any(len(v) > 1 for v in names.values()):
        part.fail("canonicalize-threaded:map-not-injective", case, {"map": {k: v for k, v in names.items()}})
        return
    tabs = {n: (space.scope.field[o[0]][1], space.scope.var_table(o[0])) for n, o in names.items()}
    for n, (off, w) in space.scope.field.items():
        tabs.setdefault(n, (w, space.scope.var_table(n)))
    ts = shadow.TableScope(tabs)
    for e, r in ((e1, r1), (e2, r2)):
        try:
            got = Den(ts)(r)
            exp = space.den(e)
        except DenError as ex:
            part.fail("canonicalize-threaded:uninterpretable", case, str(ex)[:160])
            return
        if got != exp:
            i = next(k for k, (a, b) in enumerate(zip(exp, got)) if a != b)
            part.fail("canonicalize-threaded:wrong", case, {"result": show(r), "env": space.scope.env(i), "expected": exp[i], "got": got[i]})
            return


def check_ite_relocation(space, e, part):
    try:
        exp = space.den(e)
    except DenError:
        return
    for order in (("excavate_ite", "burrow_ite"), ("burrow_ite", "excavate_ite")):
        cur = e
        for name in (*order, order[0]):
            part.count("transitions")
            part.count("ite_relocation_calls")
            case = f"w={space.w}|{'>'.join(order)}|{name}|{show(e)}"
            try:
                r = getattr(claripy, name)(cur)
                r2 = getattr(claripy, name)(cur)
                got = space.den(r)
            except DenError as ex:
                part.oracle_errors.append(f"{case}: {ex}")
                break
            except ClaripyError as ex:
                if type(ex).__name__ == "ClaripyZeroDivisionError" and any(v == 0 for a in subasts(e) if a.op in exprspace.refsem.DIV_OPS for v in space.den(a.args[1])):
                    part.count("zero_division_when_lifting_a_division")
                    break
                part.fail(f"{name}:raised:{type(ex).__name__}", case, str(ex)[:160])
                break
            except Exception as ex:  # noqa: BLE001
                part.fail(f"{name}:raised:{type(ex).__name__}", case, str(ex)[:160])
                break
            if r2 is not r:
                part.fail(f"{name}:unstable", case, {"first": show(r), "second": show(r2)})
            if got != exp:
                i = next(k for k, (a, b) in enumerate(zip(exp, got)) if a != b)
                part.fail(f"{name}:wrong:{e.op}", case, {"input": show(cur), "result": show(r), "env": space.scope.env(i), "expected": exp[i], "got": got[i]})
                break
            cur = r


def swap_table(space, t):
    """table of an expression with the two BV variables exchanged"""
    sc = space.scope
    (nx, _), (ny, _) = sc.bvs[0], sc.bvs[1]
    out = []
    for i in range(sc.N):
        env = sc.env(i)
        j = sc.index_with(sc.index_with(i, nx, env[ny]), ny, env[nx])
        out.append(t[j])
    return tuple(out)


def check_identical(space, pool, part, lo, step):
    tabs = []
    for e in pool:
        try:
            t = space.den(e)
            tabs.append((t, swap_table(space, t)))
        except DenError:
            tabs.append(None)
    for i in range(lo, len(pool), step):
        a = pool[i]
        if tabs[i] is None:
            continue
        for j, b in enumerate(pool):
            if tabs[j] is None or type(a) is not type(b):
                continue
            if isinstance(a, claripy.ast.BV) and a.length != b.length:
                continue
            part.count("transitions")
            part.count("identical_calls")
            try:
                r = a.identical(b)
            except Exception as ex:  # noqa: BLE001
                part.fail(f"identical:raised:{type(ex).__name__}", f"w={space.w}|identical|{show(a)}|{show(b)}", str(ex)[:160])
                continue
            if r and tabs[i][0] != tabs[j][0] and tabs[i][0] != tabs[j][1]:
                part.fail(
                    f"identical:lies:{a.op}:{b.op}",
                    f"w={space.w}|identical|{show(a)}|{show(b)}",
                    {"answer": True, "reason": "no renaming of the variables makes the truth tables equal"},
                    {"kind": "identical", "w": space.w},
                )


def check_ite_utils(space, part):
    x, y = space.bvs[0], space.bvs[1]
    c = space.bools[0]
    w = space.w
    conds = [c, claripy.Not(c), x == 0, claripy.ULT(x, y), x == y, claripy.true(), claripy.false(), claripy.And(c, x == 1 & mask(w))]
    vals = [x, y, claripy.BVV(0, w), claripy.BVV(mask(w), w), x + 1, claripy.If(c, x, y)]
    sc = space.scope
    for n in (1, 2, 3):
        for cs in itertools.product(conds[:6] if n == 3 else conds, repeat=n):
            for vs in itertools.product(vals[:4] if n == 3 else vals, repeat=n):
                for default in vals[:3]:
                    part.count("transitions")
                    part.count("ite_cases_calls")
                    case = f"w={w}|ite_cases|" + ",".join(f"({show(a)},{show(b)})" for a, b in zip(cs, vs)) + f"|{show(default)}"
                    try:
                        r = claripy.ite_cases(list(zip(cs, vs)), default)
                        got = space.den(r)
                        ct = [space.den(a) for a in cs]
                        vt = [space.den(b) for b in vs]
                        dt = space.den(default)
                    except Exception as ex:  # noqa: BLE001
                        part.fail(f"ite_cases:raised:{type(ex).__name__}", case, str(ex)[:160])
                        continue
                    exp = tuple(next((vt[k][i] for k in range(n) if ct[k][i]), dt[i]) for i in range(sc.N))
                    if got != exp:
                        i = next(k for k, (a, b) in enumerate(zip(exp, got)) if a != b)
                        part.fail("ite_cases:wrong", case, {"result": show(r), "env": sc.env(i), "expected": exp[i], "got": got[i]})
                        continue
                    # reverse_ite_cases: the yielded (condition, value) pairs cover every assignment consistently
                    part.count("transitions")
                    try:
                        pairs = list(claripy.reverse_ite_cases(r))
                        pt = [(space.den(pc), space.den(pv)) for pc, pv in pairs]
                    except Exception as ex:  # noqa: BLE001
                        part.fail(f"reverse_ite_cases:raised:{type(ex).__name__}", case, str(ex)[:160])
                        continue
                    for i in range(sc.N):
                        hits = [pv[i] for pc, pv in pt if pc[i]]
                        if len(hits) != 1 or hits[0] != got[i]:
                            part.fail("reverse_ite_cases:wrong", case, {"env": sc.env(i), "matching_values": hits, "value": got[i]})
                            break
    # ite_dict
    keysets = []
    allk = list(range(1 << w))
    for n in range(0, min(6, len(allk)) + 1):
        keysets += list(itertools.combinations(allk, n))[:40]
    for ks in keysets:
        for variant in range(2):
            d = {k: (claripy.BVV((k * 3 + variant) & mask(w), w) if variant == 0 else (y + k)) for k in ks}
            default = claripy.BVV(mask(w), w) if variant == 0 else x
            part.count("transitions")
            part.count("ite_dict_calls")
            case = f"w={w}|ite_dict|keys={list(ks)}|variant={variant}"
            try:
                r = claripy.ite_dict(x, d, default)
                got = space.den(r)
                xt = space.den(x)
                dt = space.den(default)
                vt = {k: space.den(v) for k, v in d.items()}
            except Exception as ex:  # noqa: BLE001
                part.fail(f"ite_dict:raised:{type(ex).__name__}", case, str(ex)[:160])
                continue
            exp = tuple(vt[xt[i]][i] if xt[i] in vt else dt[i] for i in range(sc.N))
            if got != exp:
                i = next(k for k, (a, b) in enumerate(zip(exp, got)) if a != b)
                part.fail("ite_dict:wrong", case, {"result": show(r)[:200], "env": sc.env(i), "expected": exp[i], "got": got[i]})


def check_bytes(part):
    """chop / get_byte / get_bytes at byte widths, values from byte atoms"""
    for w in (8, 12, 16, 24):
        D = shadow.byte_atom_domain(w) if w % 8 == 0 else sorted({0, 1, mask(w), 0xA5A & mask(w), 0x800, 0x0FF, 0x7F0})
        sc = shadow.product_scope([("bx", w, D), ("by", w, D[:: max(1, len(D) // 6)])])
        den = Den(sc)
        x = claripy.BVS("bx", w, explicit_name=True)
        y = claripy.BVS("by", w, explicit_name=True)
        inputs = [("x", x), ("x+y", x + y), ("If", claripy.If(x == y, x, ~y)), ("rev", claripy.Reverse(x) if w % 8 == 0 else x ^ y), ("cat", claripy.Concat(x, y)[w - 1 : 0])]
        # Concats of unevenly sized pieces whose operand count equals w / bits for some chop width
        for n in (2, 3, 4, 6):
            if w % n or w // n < 2:
                continue
            sizes = [w // n] * n
            sizes[0] -= 1
            sizes[-1] += 1
            pcs, hi = [], w
            for k, sz in enumerate(sizes):
                src = x if k % 2 == 0 else y
                pcs.append(src[hi - 1 : hi - sz])
                hi -= sz
            inputs.append((f"ucat{n}", claripy.Concat(*pcs)))
        for lab, e in inputs:
            et = den(e)
            for bits in [b for b in (1, 2, 4, 8, w) if w % b == 0 and w // b <= 24]:
                part.count("transitions")
                part.count("chop_calls")
                case = f"w={w}|chop{bits}|{lab}"
                try:
                    pieces = e.chop(bits)
                    pts = [den(p) for p in pieces]
                except Exception as ex:  # noqa: BLE001
                    part.fail(f"chop:raised:{type(ex).__name__}", case, str(ex)[:160])
                    continue
                if any(p.length != bits for p in pieces) or len(pieces) != w // bits:
                    part.fail("chop:shape", case, {"lengths": [p.length for p in pieces]})
                    continue
                for i in range(sc.N):
                    v = 0
                    for t in pts:
                        v = (v << bits) | t[i]
                    if v != et[i]:
                        part.fail("chop:wrong", case, {"env": sc.env(i), "expected": et[i], "got": v})
                        break
            nb = (w + 7) // 8
            for idx in range(nb):
                for size in range(1, nb - idx + 1):
                    part.count("transitions")
                    part.count("get_bytes_calls")
                    case = f"w={w}|get_bytes({idx},{size})|{lab}"
                    try:
                        r = e.get_bytes(idx, size) if size > 1 else e.get_byte(idx)
                        rt = den(r)
                    except Exception as ex:  # noqa: BLE001
                        part.fail(f"get_bytes:raised:{type(ex).__name__}", case, str(ex)[:160])
                        continue
                    if r.length != size * 8:
                        part.fail("get_bytes:shape", case, {"length": r.length})
                        continue
                    for i in range(sc.N):
                        full = et[i].to_bytes(nb, "big")
                        expv = int.from_bytes(full[idx : idx + size], "big")
                        if rt[i] != expv:
                            part.fail("get_bytes:wrong", case, {"env": sc.env(i), "expected": expv, "got": rt[i]})
                            break


# ---------------------------------------------------------------------------------------------


def _job(item):
    kind, w, lo, step, stride2 = item
    part = Part()
    if kind == "bytes":
        check_bytes(part)
        return part.dump()
    space = exprspace.Space(w)
    if kind == "iteutils":
        check_ite_utils(space, part)
        return part.dump()
    level0, l1, l2, it = make_pool(space, stride2)
    pool = level0 + l1 + l2 + it
    if kind == "identical":
        ident_pool = (level0 + l1)[:: max(1, len(level0 + l1) // 260)] + it[::7]
        # the classic near-misses
        x, y = space.bvs[0], space.bvs[1]
        ident_pool += [x + 1, x + 2, y + 1, x - 1, x ^ 1, y ^ 1, x & y, y & x, claripy.ULT(x, y), claripy.ULT(y, x), claripy.UGT(x, y), x == y, x != y]
        check_identical(space, ident_pool, part, lo, step)
        part.sample({"w": w, "identical_pool": len(ident_pool)}, limit=1)
        return part.dump()
    mine = pool[lo::step]
    bx, by = space.bvs[0], space.bvs[1]
    partners = [by, bx * by, by + 1, claripy.If(claripy.ULT(bx, by), by, bx ^ 1)]
    for e in mine:
        part.count("states")
        check_replace(space, e, part, "")
        check_canonicalize(space, e, part)
        for q in partners:
            check_canonicalize_threaded(space, e, q, part)
            check_canonicalize_threaded(space, q, e, part)
        check_ite_relocation(space, e, part)
    if mine:
        part.sample({"w": w, "input": show(mine[0]), "inputs_in_shard": len(mine), "pool": len(pool)}, limit=1)
    return part.dump()


def run(tier: str) -> int:
    rep = Report(
        PID,
        tier,
        "model_checking",
        rule="inputs = all E1 states of depth 1, a strided family of depth-2 states and nested If trees (depth <= 2 over 3 "
        "conditions) with operations on them; replace for every sub-AST x every same-sort partner, replace_dict maps, "
        "canonicalize (alone, and threaded with 4 partners in both orders through the returned map / counter), excavate/burrow (twice, both orders) on every input; identical on all pairs of a pool; ite_cases "
        "for all case lists of length <= 3 over 8 conditions x 6 values, reverse_ite_cases on each result, ite_dict for "
        "key sets of size 0-6; chop / get_byte / get_bytes at widths 8, 12, 16, 24 over byte atoms (incl. Concats of uneven pieces); oracle = truth tables",
    )
    items = []
    if tier == "quick":
        widths, nsh, stride2 = [1, 2], 24, 12
    else:
        widths, nsh, stride2 = [1, 2, 3], 48, 4
    for w in widths:
        for lo in range(nsh):
            items.append(("inputs", w, lo, nsh, stride2))
        for lo in range(8):
            items.append(("identical", w, lo, 8, stride2))
        items.append(("iteutils", w, 0, 1, stride2))
    items.append(("bytes", 8, 0, 1, 0))
    for res in pmap(_job, items):
        rep.merge(res)
    rep.assumptions = [
        "a ClaripyZeroDivisionError raised because a utility folded a concrete x/0 it created is counted, not judged here (C04)",
        "identical(): only a True answer is judged",
    ]
    return rep.finish()


def replay(path: str) -> int:
    data = json.load(open(path))
    bad = 0
    cache = {}
    for c in data["cases"]:
        case = c["case"]
        w = int(case.split("|")[0][2:])
        kind = case.split("|")[1]
        key = (w, kind.split("(")[0].rstrip("0123456789"))
        if key not in cache:
            fails = []
            if kind.startswith("chop") or kind.startswith("get_bytes"):
                p = Part()
                check_bytes(p)
                fails = p.failures
            elif kind.startswith("ite_cases") or kind.startswith("ite_dict"):
                p = Part()
                check_ite_utils(exprspace.Space(w), p)
                fails = p.failures
            elif kind == "identical":
                for lo in range(8):
                    fails += _job(("identical", w, lo, 8, 4))["failures"]
            else:
                for lo in range(8):
                    fails += _job(("inputs", w, lo, 8, 4))["failures"]
            cache[key] = {f["case"] for f in fails}
        if case in cache[key]:
            bad += 1
            print(f"VIOLATION property={PID} replay={path}")
            print("  ", case)
        else:
            print("replay:", case, "holds now (or is outside the replayed family)")
    return 1 if bad else 0
