"""Z3 translation conformance (filled in below)"""


def run_z3conf(report, tier):
    return
