"""Conformance of claripy's AST -> Z3 translation (the meaning symbolic nodes have for the solver).

For every AST produced by one public operation on the leaves of the scope (thorough: two), the term
`backends.z3.convert(ast)` is ground-evaluated under EVERY assignment (variables substituted by
numerals, `z3.simplify` to a value – no `check()` involved) and compared with `den(ast)`, the
node-by-node reference interpretation.  `Backend.convert` is a structural recursion with one handler
per op, so agreement on every op over every operand shape extends to trees.
"""

from __future__ import annotations

import claripy
import z3

from .common import Part, pmap
from .refsem import DenError, show


def z3_table(ast, scope, zvars):
    """truth table of the Z3 translation of `ast` over the scope, by ground evaluation"""
    term = claripy.backends.z3.convert(ast)
    out = []
    isbool = z3.is_bool(term)
    names = list(zvars)
    for i in range(scope.N):
        env = scope.env(i)
        subs = []
        for n in names:
            zv = zvars[n]
            v = env[n]
            if z3.is_bool(zv):
                subs.append((zv, z3.BoolVal(bool(v), ctx=zv.ctx)))
            else:
                subs.append((zv, z3.BitVecVal(v, zv.size(), ctx=zv.ctx)))
        g = z3.simplify(z3.substitute(term, *subs))
        if isbool:
            if z3.is_true(g):
                out.append(True)
            elif z3.is_false(g):
                out.append(False)
            else:
                raise ValueError(f"not ground: {g}")
        else:
            if not z3.is_bv_value(g):
                raise ValueError(f"not ground: {g}")
            out.append(g.as_long())
    return tuple(out)


def _shard(args):
    from .exprspace import Space

    w, leaf_i, depth = args
    part = Part()
    space = Space(w, nbool=2)
    zvars = {}
    for v in space.leaves():
        zvars[v.args[0]] = claripy.backends.z3.convert(v)
    level = [space.leaves()[leaf_i]]
    seen = set()
    for d in range(depth):
        nxt = []
        for s in level:
            for tr in space.transitions(s, full=(d == 0)):
                try:
                    r = tr.build()
                except Exception:
                    continue
                if not isinstance(r, claripy.ast.Base) or id(r) in seen:
                    continue
                seen.add(id(r))
                nxt.append(r)
                if not r.symbolic:
                    continue
                part.count("transitions")
                part.count("z3_terms_evaluated")
                try:
                    exp = space.den(r)
                    got = z3_table(r, space.scope, zvars)
                except DenError as e:
                    part.oracle_errors.append(f"z3conf {tr.key}: {e}")
                    continue
                except Exception as e:
                    part.fail("z3conv:raise:" + r.op, f"w={w}|{show(r)}", f"{type(e).__name__}: {e}")
                    continue
                if exp != got:
                    i = next(k for k, (a, b) in enumerate(zip(exp, got)) if a != b)
                    part.fail(
                        "z3conv:" + r.op,
                        f"w={w}|{show(r)}",
                        {"env": space.scope.env(i), "den": exp[i], "z3": got[i]},
                    )
                else:
                    part.sample({"z3conf": show(r), "w": w}, limit=1)
                part.note("z3conf_ops", r.op)
        # only rewrite-free, symbolic nodes of moderate number go on
        level = [s for s in nxt if s.symbolic][:: max(1, len(nxt) // 40)] if d + 1 < depth else []
    return part.dump()


def _reverse_shard(w):
    """Reverse / n-ary Bool nodes at byte widths (value alphabet = byte atoms)"""
    from .shadow import byte_atom_domain, product_scope

    part = Part()
    D = byte_atom_domain(w, cap=300)
    scope = product_scope([("x", w, D), ("c", 0, [False, True]), ("d", 0, [False, True])])
    from .refsem import Den

    den = Den(scope)
    x = claripy.BVS("x", w, explicit_name=True)
    c = claripy.BoolS("c", explicit_name=True)
    d = claripy.BoolS("d", explicit_name=True)
    zvars = {"x": claripy.backends.z3.convert(x), "c": claripy.backends.z3.convert(c), "d": claripy.backends.z3.convert(d)}
    cases = [claripy.Reverse(x), claripy.Reverse(x + 1), claripy.Reverse(x)[w - 1 : 4], claripy.Concat(x, claripy.Reverse(x))]
    cases += [claripy.And(c, d), claripy.Or(c, d), claripy.And(c, d, x == 1), claripy.Or(c, claripy.Not(d), x != 1)]
    cases += [claripy.If(claripy.And(c, d), x, claripy.Reverse(x)), x * x * 3, x + x + 1, (x ^ 1) ^ claripy.Reverse(x)]
    for r in cases:
        part.count("transitions")
        part.count("z3_terms_evaluated")
        part.note("z3conf_ops", r.op)
        try:
            exp = den(r)
            got = z3_table(r, scope, zvars)
        except DenError as e:
            part.oracle_errors.append(f"z3conf {show(r)}: {e}")
            continue
        except Exception as e:
            part.fail("z3conv:raise:" + r.op, f"w={w}|{show(r)}", f"{type(e).__name__}: {e}")
            continue
        if exp != got:
            i = next(k for k, (a, b) in enumerate(zip(exp, got)) if a != b)
            part.fail("z3conv:" + r.op, f"w={w}|{show(r)}", {"env": scope.env(i), "den": exp[i], "z3": got[i]})
    return part.dump()


def run_z3conf(report, tier, widths=None):
    widths = widths or ((1, 2, 3) if tier == "quick" else (1, 2, 3, 4))
    depth = 1 if tier == "quick" else 2
    # depth 2 only up to width 3 (at width 4 one AST costs 1024 ground evaluations and the shards run for half an hour)
    items = [(w, i, depth if w <= 3 else 1) for w in widths for i in range(4)]
    for res in pmap(_shard, items):
        report.merge(res)
    for res in pmap(_reverse_shard, [16, 24, 32, 64]):
        report.merge(res)


def refsem_selftest(report, widths=(1, 2, 3)):
    """our op table vs. Z3's own ground evaluation of the SMT-LIB operators (z3 API only; no claripy).
    A disagreement is an error of OUR oracle: exit 2, never a VIOLATION."""
    from . import refsem as R

    zops = {
        "__add__": lambda a, b: a + b,
        "__sub__": lambda a, b: a - b,
        "__mul__": lambda a, b: a * b,
        "__floordiv__": z3.UDiv,
        "__mod__": z3.URem,
        "SDiv": lambda a, b: a / b,
        "SMod": z3.SRem,
        "__and__": lambda a, b: a & b,
        "__or__": lambda a, b: a | b,
        "__xor__": lambda a, b: a ^ b,
        "__lshift__": lambda a, b: a << b,
        "__rshift__": lambda a, b: a >> b,
        "LShR": z3.LShR,
        "RotateLeft": z3.RotateLeft,
        "RotateRight": z3.RotateRight,
    }
    zcmp = {
        "__eq__": lambda a, b: a == b,
        "__ne__": lambda a, b: a != b,
        "ULT": z3.ULT,
        "ULE": z3.ULE,
        "UGT": z3.UGT,
        "UGE": z3.UGE,
        "SLT": lambda a, b: a < b,
        "SLE": lambda a, b: a <= b,
        "SGT": lambda a, b: a > b,
        "SGE": lambda a, b: a >= b,
    }
    n = 0
    for w in widths:
        for a in range(1 << w):
            A = z3.BitVecVal(a, w)
            for b in range(1 << w):
                B = z3.BitVecVal(b, w)
                for name, f in zops.items():
                    g = z3.simplify(f(A, B)).as_long()
                    n += 1
                    if g != R.BV_BIN[name](a, b, w):
                        report.oracle_errors.append(f"refsem {name}({a},{b})#{w}: ours {R.BV_BIN[name](a, b, w)} z3 {g}")
                for name, f in zcmp.items():
                    g = z3.is_true(z3.simplify(f(A, B)))
                    n += 1
                    if g != R.BV_CMP[name](a, b, w):
                        report.oracle_errors.append(f"refsem {name}({a},{b})#{w}")
            for k in (1, 2):
                if z3.simplify(z3.SignExt(k, A)).as_long() != R.signext(k, a, w):
                    report.oracle_errors.append(f"refsem signext {a}#{w}")
            if z3.simplify(-A).as_long() != R.bvneg(a, w) or z3.simplify(~A).as_long() != R.bvnot(a, w):
                report.oracle_errors.append(f"refsem neg/not {a}#{w}")
    report.count("oracle_selftest_cases", n)
