"""Pattern drivers: "one input per shortcut you can see in the code".

Every driver enumerates *all* instances of one family of operand shapes (all constants / slice
bounds / extension amounts at small widths, byte-atom value alphabets at 8..64 bits) that reach a
particular branch of claripy/simplifications.py, ast/bool.py:If or the concrete backend, written as
ordinary Python over shadow values (mc/shadow.py).  Every single construction step is checked.
"""

from __future__ import annotations

import itertools

import claripy

from . import shadow as S
from .common import Part, pmap
from .refsem import mask
from .shadow import Ctx, Skip, byte_atom_domain, product_scope

# ---------------------------------------------------------------------------------------------
# domains
# ---------------------------------------------------------------------------------------------


def dom(w: int, budget: int = 4096, nvars: int = 1):
    """value domain for one variable of width w such that nvars of them stay within budget envs"""
    per = max(2, int(budget ** (1.0 / nvars)))
    if (1 << w) <= per:
        return list(range(1 << w))
    if w % 8 == 0:
        return byte_atom_domain(w, cap=per)
    m = mask(w)
    vals = {0, 1, 2, 3, m, m - 1, 1 << (w - 1), (1 << (w - 1)) - 1, (1 << (w - 1)) + 1, 0x5A5A5A5A5A5A5A5A5A & m, 0xA5A5A5A5A5A5A5A5A5 & m}
    for i in range(w):
        vals.add(1 << i)
        vals.add(m ^ (1 << i))
    return sorted(vals)[: max(per, 8)] if len(vals) > per else sorted(vals)


def consts(w: int):
    if w <= 4:
        return list(range(1 << w))
    m = mask(w)
    c = {0, 1, 2, 3, 7, 8, w - 1, w, w + 1, 0x0F & m, 0x5A & m, 0x7F & m, 0x80 & m, 0xFF & m, (1 << (w - 1)) - 1, 1 << (w - 1), (1 << (w - 1)) + 1, m - 1, m}
    return sorted(c)


class Inst:
    """runs one pattern instance with its own scope"""

    def __init__(self, part, on_check):
        self.part = part
        self.on_check = on_check

    def __call__(self, name, vars_, body):
        scope = product_scope(vars_)
        ctx = Ctx(scope, self.part, self.on_check, prefix=name + "|")
        self.part.count("pattern_bodies")
        try:
            body(ctx)
        except Skip:
            self.part.count("zero_division_accepted")
        except Exception as e:  # crashes are C04's business
            self.part.count("raised_other")
            self.part.note("raised_types", type(e).__name__)
            self.part.note("raised_in", name.split("|")[0])


# ---------------------------------------------------------------------------------------------
# drivers: each is drv(inst, tier) and calls inst(name, vars, body) for every instance
# ---------------------------------------------------------------------------------------------


def d_reverse(inst, tier, w):
    D = dom(w, 1500)
    D2 = dom(w, 1500, 2)
    nb = w // 8
    inst(f"rev.revrev|w={w}", [("x", w, D)], lambda c: c.bv("x", w).reversed.reversed)
    inst(f"rev.Reverse.reversed|w={w}", [("x", w, D)], lambda c: S.Reverse(S.Reverse(c.bv("x", w))))

    # Reverse(Concat(x[7:0], x[15:8], ...)) : bswap idiom, full and partial
    def bswap(c, k, order):
        x = c.bv("x", w)
        parts = [x[(i + 1) * 8 - 1 : i * 8] for i in range(k)]
        if order == "rev":
            parts = parts[::-1]
        S.Reverse(S.Concat(*parts)) if len(parts) > 1 else S.Reverse(parts[0])

    for k in range(1, nb + 1):
        for order in ("fwd", "rev"):
            inst(f"rev.bswap|w={w}|k={k}|{order}", [("x", w, D)], lambda c, k=k, order=order: bswap(c, k, order))

    # Reverse(Concat of 8-bit variables / constants)
    def bytes_concat(c, kinds):
        parts = []
        for i, kd in enumerate(kinds):
            parts.append(c.bv(f"b{i}", 8) if kd == "v" else c.const(0x11 * (i + 1), 8))
        S.Reverse(S.Concat(*parts))

    for kinds in itertools.product("vc", repeat=min(nb, 3)):
        if "v" not in kinds:
            continue
        vs = [(f"b{i}", 8, [0, 1, 0x7F, 0x80, 0xFF, 0x5A]) for i, kd in enumerate(kinds) if kd == "v"]
        inst(f"rev.bytes|{''.join(kinds)}", vs, lambda c, kinds=kinds: bytes_concat(c, kinds))

    # Reverse(Concat(Reverse(p), Reverse(q)))
    if w >= 16:
        for wp in range(8, w, 8):
            wq = w - wp
            inst(
                f"rev.concat_of_reversed|w={w}|{wp}+{wq}",
                [("p", wp, dom(wp, 40)), ("q", wq, dom(wq, 40))],
                lambda c, wp=wp, wq=wq: S.Reverse(S.Concat(c.bv("p", wp).reversed, c.bv("q", wq).reversed)),
            )
            inst(
                f"rev.extract_rev_concat|w={w}|{wp}+{wq}",
                [("p", wp, dom(wp, 40)), ("q", wq, dom(wq, 40))],
                lambda c, wp=wp, wq=wq: [
                    S.Extract(hi, lo, S.Reverse(S.Concat(c.bv("p", wp), c.bv("q", wq))))
                    for hi, lo in _slices(w, tier, small=True)
                ],
            )

    # Extract(hi, lo, Reverse(x)) and Reverse(Extract(hi, lo, Reverse(x)))
    def ext_rev(c, hi, lo):
        x = c.bv("x", w)
        e = S.Extract(hi, lo, S.Reverse(x))
        if (hi - lo + 1) % 8 == 0:
            S.Reverse(e)
        s2 = x.reversed[hi:lo]
        if (hi - lo + 1) % 8 == 0:
            s2.reversed

    for hi, lo in _slices(w, tier):
        inst(f"rev.extract|w={w}|{hi}:{lo}", [("x", w, D)], lambda c, hi=hi, lo=lo: ext_rev(c, hi, lo))

    # Reverse(x) ==/!= Reverse(y), Reverse(x) == const
    def rev_eq(c):
        x, y = c.bv("x", w), c.bv("y", w)
        x.reversed == y.reversed
        x.reversed != y.reversed
        for k in consts(w)[:6]:
            x.reversed == k
            x.reversed != c.const(k, w).reversed

    inst(f"rev.eq|w={w}", [("x", w, D2), ("y", w, D2)], rev_eq)

    # concrete Reverse of every domain value (the 16/32/64 fast paths and the generic loop)
    def rev_conc(c):
        for v in D:
            S.Reverse(c.const(v, w))

    inst(f"rev.concrete|w={w}", [], rev_conc)


def _slices(w, tier, small=False):
    if w <= 16 and not small:
        return [(hi, lo) for hi in range(w) for lo in range(hi + 1)]
    out = set()
    for lo in range(0, w):
        for ln in (1, 8, 9, 16):
            hi = lo + ln - 1
            if hi < w and (tier == "thorough" or lo % 8 in (0, 1, 7) or ln in (8,)):
                out.add((hi, lo))
    out |= {(w - 1, 0), (w - 1, 8), (w - 9, 0), (w - 1, w - 8), (7, 0), (8, 1), (15, 8)} & {(h, l) for h in range(w) for l in range(h + 1)}
    if small:
        out = {(h, l) for h, l in out if l % 8 in (0, 1) and (h - l + 1) in (1, 8, 16)} | {(w - 1, 0), (8, 1), (7, 0), (w - 1, w - 8)}
        out = {(h, l) for h, l in out if 0 <= l <= h < w}
    return sorted(out)


def d_eqne(inst, tier, w):
    Dx = dom(w, 1024)
    cs = consts(w)
    V1 = [("x", w, Dx)]

    def sub_eq(c, c1, c2):
        x = c.bv("x", w)
        (x - c1) == c2
        (x - c.const(c1, w)) == c.const(c2, w)
        (x - c.const(c1, w)) != c.const(c2, w)
        c.const(c2, w) == (x - c.const(c1, w))

    for c1 in cs:
        for c2 in cs:
            inst(f"eq.sub_const|w={w}|{c1},{c2}", V1, lambda c, c1=c1, c2=c2: sub_eq(c, c1, c2))

    def xor1(c):
        x = c.bv("x", w)
        one, zero = c.const(1, w), c.const(0, w)
        (x ^ one) == zero
        (one ^ x) == zero
        (x ^ one) != zero
        (one ^ x) != zero
        (x ^ 1) == 0
        (x ^ 1) != 0

    inst(f"eq.xor1|w={w}", V1, xor1)

    def and_xor(c, a):
        x = c.bv("x", w)
        A = c.const(a, w)
        Z = c.const(0, w)
        ((x & A) ^ A) == Z
        ((A & x) ^ A) == Z
        ((x & A) ^ A) != Z
        ((A & x) ^ A) != Z
        (A ^ (x & A)) == Z
        ((x & a) ^ a) == 0

    for a in cs:
        inst(f"eq.and_xor|w={w}|a={a}", V1, lambda c, a=a: and_xor(c, a))

    def if_eq(c, k1, k2, k3):
        b = c.boolean("c")
        K1, K2, K3 = c.const(k1, w), c.const(k2, w), c.const(k3, w)
        i = S.If(b, K1, K2)
        i == K3
        K3 == i
        i != K3
        K3 != i

    ks = cs if w <= 2 else cs[:3] + cs[-2:]
    for k1, k2, k3 in itertools.product(ks, repeat=3):
        inst(f"eq.if_const|w={w}|{k1},{k2},{k3}", [("c", 0, [False, True])], lambda c, a=k1, b=k2, d=k3: if_eq(c, a, b, d))

    def if_eq_sym(c):
        b = c.boolean("c")
        x, y = c.bv("x", w), c.bv("y", w)
        for t, f in ((x, y), (x, c.const(1, w)), (c.const(0, w), y), (x, x + 1), (x + 1, x)):
            i = S.If(b, t, f)
            i == t
            i == f
            t == i
            f == i
            i != t
            i != f
            t != i
            f != i

    D2 = dom(w, 512, 2)
    inst(f"eq.if_sym|w={w}", [("x", w, D2), ("y", w, D2), ("c", 0, [False, True])], if_eq_sym)

    # (x & mask) ==/!= b
    masks = cs if w <= 4 else sorted({0, 1, 3, 7, 0xF, 0x1F, 0x3F, 0x7F, 0xFF, 0x80, 0x5A, 0x10, 2, 6, 0xFFF, 0x100, 0x1FF, 0xFF00} & set(range(1 << w)))
    bs = cs if w <= 4 else sorted(set(cs) | {0x10, 0x1F, 0x20, 0x100 & mask(w), 0x1FF & mask(w)})

    def and_mask(c, m, b):
        x = c.bv("x", w)
        M, B = c.const(m, w), c.const(b, w)
        (x & M) == B
        (x & M) != B
        (M & x) == B
        (x & m) == b

    for m in masks:
        for b in bs:
            inst(f"eq.and_mask|w={w}|m={m}|b={b}", V1, lambda c, m=m, b=b: and_mask(c, m, b))


def d_zeroext_cmp(inst, tier, w):
    Dx = dom(w, 1024)
    V1 = [("x", w, Dx)]
    for k in (1, 2, 3) if w <= 4 else (8, 24):
        W = w + k
        for b in consts(W):

            def body(c, k=k, b=b, W=W):
                x = c.bv("x", w)
                B = c.const(b, W)
                ze = S.ZeroExt(k, x)
                cc = S.Concat(c.const(0, k), x)
                for e in (ze, cc):
                    e == B
                    e != B
                    e >= B
                    S.UGE(e, B)
                    B == e
                # Extract(hi, 0, ZeroExt/Concat) against constants of the extracted width
                for hi in range(W) if W <= 8 else (w - 1, w, W - 2, W - 1, 7, 8):
                    if not 0 <= hi < W:
                        continue
                    bb = c.const(b, hi + 1)
                    S.Extract(hi, 0, ze) == bb
                    S.Extract(hi, 0, cc) != bb
                    S.Extract(hi, 0, S.Concat(c.const(0, k), x)) == bb

            inst(f"cmp.zeroext|w={w}|k={k}|b={b}", V1, body)

    # SIMPLE_OPS bit-by-bit comparison: Concat / SignExt / ZeroExt with concrete low or high parts
    for b in consts(w + 1):

        def body2(c, b=b):
            x = c.bv("x", w)
            B = c.const(b, w + 1)
            for e in (S.Concat(x, c.const(1, 1)), S.Concat(c.const(1, 1), x), S.SignExt(1, x), S.Concat(x, c.const(0, 1))):
                e == B
                e != B
                B == e
                B != e

        inst(f"cmp.simple_ops|w={w}|b={b}", V1, body2)


def d_booland(inst, tier, w):
    D2 = dom(w, 1024, 2)
    V = [("x", w, D2), ("y", w, D2)]
    cs = consts(w)
    small = cs if w <= 3 else cs[:3] + cs[-2:]

    def eqeq(c, a, b):
        x = c.bv("x", w)
        S.And(x == a, x == b)
        S.And(x == a, x != b)
        S.And(x != a, x == b)
        S.And(x == a, x != b, x != a)
        S.And(x == a, x == b, x != b)
        S.Or(x == a, x == b)
        S.And(c.const(a, w) == x, x == b)

    for a in small:
        for b in small:
            inst(f"and.eqeq|w={w}|{a},{b}", V, lambda c, a=a, b=b: eqeq(c, a, b))

    def uge_ne(c):
        x, y = c.bv("x", w), c.bv("y", w)
        S.And(x >= y, x != y)
        S.And(x != y, x >= y)
        S.And(S.UGE(x, y), y != x)
        S.And(x == y, x != y)
        S.And(x == y, y == x)
        S.And(x == y, x == y + 1)
        S.And(S.SGE(x, y), x != y)
        S.And(x <= y, x != y)
        for k in small:
            S.And(x >= k, x != k)
            S.And(x == y, x != k)
            S.And(x == y, x == k, y != k)
        t, f = c.true(), c.false()
        S.And(x == y, t)
        S.And(t, x == y, t)
        S.And(x == y, f)
        S.Or(x == y, f)
        S.Or(f, x == y, f)
        S.Or(x == y, t)
        S.And(S.And(x == y, x >= y), S.And(x == y, x <= y))
        S.Or(S.Or(x == y, x >= y), S.Or(x == y, x <= y))

    inst(f"and.misc|w={w}", V, uge_ne)

    def nots(c):
        x, y = c.bv("x", w), c.bv("y", w)
        for f in (S.ULT, S.ULE, S.UGT, S.UGE, S.SLT, S.SLE, S.SGT, S.SGE):
            S.Not(f(x, y))
            S.Not(S.Not(f(x, y)))
        S.Not(x == y)
        S.Not(x != y)

    inst(f"not.cmp|w={w}", V, nots)


def d_addsub(inst, tier, w):
    D2 = dom(w, 1024, 2)
    V = [("x", w, D2), ("y", w, D2)]
    cs = consts(w)

    def body(c, c1, c2):
        x, y = c.bv("x", w), c.bv("y", w)
        C1, C2 = c.const(c1, w), c.const(c2, w)
        (x - C1) + C2
        (x - C1) - C2
        (x + C1) - C2
        (x + y + C1) - C2
        (x + C1) + C2
        (C1 - x) - C2
        (x * C1) * C2
        ((x - C1) + C2) - C1
        (x - c1) + c2
        c2 + (x - c1)

    for c1 in cs:
        for c2 in cs:
            inst(f"add.sub_flatten|w={w}|{c1},{c2}", V, lambda c, a=c1, b=c2: body(c, a, b))

    def selfs(c):
        x, y = c.bv("x", w), c.bv("y", w)
        x - x
        (x + y) - (x + y)
        x ^ x
        x ^ y ^ x
        x ^ y ^ x ^ y
        x | x
        x & x
        (x | y) | (y | x)
        (x & y) & x
        x + 0
        0 + x
        x * 1
        x - 0
        x ^ 0
        x | 0
        x & 0
        x & mask(w)
        mask(w) & x

    inst(f"add.self|w={w}", V, selfs)


def d_minmax(inst, tier, w):
    D2 = dom(w, 1024, 2)
    V = [("q", w, D2), ("r", w, D2)]

    def body(c, variant):
        q, r = c.bv("q", w), c.bv("r", w)
        sh = c.const(w - 1, w)
        s = (q - r) if variant == "max" else (r - q)
        t = q ^ r
        u = (s ^ q) if variant == "max" else (s ^ r)
        v = u & t
        ww = v ^ s
        x = ww >> sh
        y = x & t
        q ^ y
        y ^ q

    for variant in ("max", "min"):
        inst(f"xor.minmax|w={w}|{variant}", V, lambda c, v=variant: body(c, v))


def d_rotmask(inst, tier, N):
    D = byte_atom_domain(N, cap=600)
    V = [("A", N, D)]
    want = 0xFFFF if N == 32 else 0xFFFFFFFF

    def body(c, a, m):
        A = c.bv("A", N)
        ((A << a) | S.LShR(A, N - a)) & m
        ((A << c.const(a, N)) | S.LShR(A, c.const(N - a, N))) & c.const(m, N)

    amounts = (1, 3, 8, 13, 16, N - 1) if tier == "quick" else tuple(range(1, N))
    for a in amounts:
        # masks that do / do not match the rewrite's condition
        good = ((want << a) | (want >> (N - a))) & mask(N)
        for m in {good, good ^ 1, good | (1 << (N - 1)), want, mask(N), good >> 1}:
            inst(f"and.rotmask|N={N}|a={a}|m={m:#x}", V, lambda c, a=a, m=m: body(c, a, m))


def d_andmisc(inst, tier, w):
    # Concat(p, q) & mask  for every split and every mask
    for wp in range(1, w):
        wq = w - wp
        V = [("p", wp, dom(wp, 64)), ("q", wq, dom(wq, 64))]
        for m in consts(w):

            def body(c, wp=wp, wq=wq, m=m):
                p, q = c.bv("p", wp), c.bv("q", wq)
                S.Concat(p, q) & c.const(m, w)
                c.const(m, w) & S.Concat(p, q)
                S.Concat(p, q) | c.const(m, w)

            inst(f"and.concat_mask|w={w}|{wp}+{wq}|m={m}", V, body)

    def ifif(c):
        b, d = c.boolean("c"), c.boolean("d")
        one, zero = c.const(1, w), c.const(0, w)
        S.If(b, one, zero) & S.If(d, one, zero)
        S.If(b, one, zero) & S.If(d, zero, one)
        S.If(b, one, zero) | S.If(d, one, zero)
        ~S.If(b, one, zero)
        ~S.If(b, zero, one)
        S.If(b, one, zero)[0:0]
        if w > 1:
            S.If(b, c.const(2, w), zero) & S.If(d, one, zero)
            ~S.If(b, one, c.bv("x", w))

    inst(f"and.ifif|w={w}", [("c", 0, [False, True]), ("d", 0, [False, True]), ("x", w, dom(w, 64))], ifif)


def d_shifts(inst, tier, w):
    Dx = dom(w, 256)
    cs = consts

    def body(c, k):
        x = c.bv("x", w)
        W = w + k
        for s in cs(W):
            Sx = c.const(s, W)
            for e in (S.Concat(c.const(0, k), x), S.ZeroExt(k, x)):
                e >> Sx
                S.LShR(e, Sx)
                e << Sx

    for k in (1, 2):
        inst(f"shift.zeroext|w={w}|k={k}", [("x", w, Dx)], lambda c, k=k: body(c, k))

    def nested(c, a, b):
        x = c.bv("x", w)
        A, B = c.const(a, w), c.const(b, w)
        (x << A) << B
        S.LShR(S.LShR(x, A), B)
        (x >> A) >> B
        S.LShR(x << A, B)
        (x << a) << b

    for a in cs(w):
        for b in cs(w):
            inst(f"shift.nested|w={w}|{a},{b}", [("x", w, Dx)], lambda c, a=a, b=b: nested(c, a, b))

    def sym(c):
        x, y = c.bv("x", w), c.bv("y", w)
        (x << y) << y
        (x << y) << 1
        (x << 1) << y
        S.RotateLeft(S.RotateLeft(x, y), y)
        S.RotateRight(S.RotateLeft(x, y), y)

    D2 = dom(w, 1024, 2)
    inst(f"shift.sym|w={w}", [("x", w, D2), ("y", w, D2)], sym)


def d_extract(inst, tier, w):
    D2 = dom(w, 256, 2)
    V = [("x", w, D2), ("y", w, D2), ("c", 0, [False, True])]

    def body(c, k):
        x, y, b = c.bv("x", w), c.bv("y", w), c.boolean("c")
        shapes = [
            S.SignExt(k, x),
            S.ZeroExt(k, x),
            S.Concat(x, y),
            S.Concat(x, c.const(1, k), y),
            S.Concat(c.const(0, k), x),
            x & y & c.const(5 & mask(w), w),
            x | c.const(1, w),
            x ^ y ^ c.const(mask(w), w),
            S.If(b, c.const(1, w), c.const(0, w)),
            S.If(b, c.const(mask(w), w), c.const(2 & mask(w), w)),
            S.If(b, x, c.const(0, w)),
            ~x,
            ~(x & y),
            x + y,
            S.ZeroExt(k, x)[w + k - 1 : 1] if w + k > 2 else x,
        ]
        for e in shapes:
            W = e.w
            for hi in range(W):
                for lo in range(hi + 1):
                    e[hi:lo]

    for k in (1, 2):
        inst(f"extract.shapes|w={w}|k={k}", V, lambda c, k=k: body(c, k))

    # n-ary xor / and / or / add of 3-5 concatenations that share a field: extracting the field distributes the
    # slice over the n-ary node and rebuilds it with repeated operands (multiplicities 3, 4, 5)
    def nary(c, n, opname):
        import operator

        f = {"xor": operator.xor, "and": operator.and_, "or": operator.or_, "add": operator.add}[opname]
        x, y = c.bv("x", w), c.bv("y", w)
        heads = [x, y, ~x, x + y, c.const(1 & mask(w), w)]
        for shared in (y, c.const(mask(w), w), x ^ y):
            e = S.Concat(heads[0], shared)
            for h in heads[1:n]:
                e = f(e, S.Concat(h, shared))
            for hi, lo in ((w - 1, 0), (2 * w - 1, w), (w, w - 1) if w > 1 else (0, 0), (0, 0), (2 * w - 1, 0)):
                if 0 <= lo <= hi < 2 * w:
                    e[hi:lo]
            e2 = S.Concat(shared, heads[0])
            for h in heads[1:n]:
                e2 = f(e2, S.Concat(shared, h))
            e2[2 * w - 1 : w]
            e2[w - 1 : 0]

    for n in (3, 4, 5):
        for opname in ("xor", "and", "or", "add"):
            inst(f"extract.nary|w={w}|n={n}|{opname}", V[:2], lambda c, n=n, opname=opname: nary(c, n, opname))


def d_concat(inst, tier, w):
    D2 = dom(w, 256, 2)
    V = [("x", w, D2), ("y", w, D2)]

    def body(c):
        x, y = c.bv("x", w), c.bv("y", w)
        k1, k2 = c.const(1, 1), c.const(2 & mask(w), w)
        S.Concat(k1, k2, x)
        S.Concat(x, k1, k2)
        S.Concat(k1, x, k2, k1, y)
        S.Concat(S.Concat(x, y), x)
        S.Concat(x, S.Concat(y, k1))
        S.Concat(S.Concat(k1, x), S.Concat(k2, y))
        z0 = S.SV(c, claripy.BVV(0, 0), c.scope.const(0), 0, "0#0")
        S.Concat(x, z0)
        S.Concat(z0, x, z0, y)
        if w >= 2:
            for cut in range(1, w):
                S.Concat(x[w - 1 : cut], x[cut - 1 : 0])
                S.Concat(x[w - 1 : cut], y[cut - 1 : 0])
                if cut >= 2:
                    S.Concat(x[w - 1 : cut], x[cut - 1 : 1], x[0:0])
                    S.Concat(x[w - 1 : cut], x[cut - 2 : 0])
            S.Concat(x[0:0], x[w - 1 : 1])
            S.Concat(y, x[w - 1 : 1], x[0:0], y)

    inst(f"concat.misc|w={w}", V, body)


def d_ite(inst, tier, w):
    D = dom(w, 16)
    V = [("x", w, D), ("y", w, D), ("c", 0, [False, True]), ("d", 0, [False, True])]

    def body(c):
        x, y, b, d = c.bv("x", w), c.bv("y", w), c.boolean("c"), c.boolean("d")
        k = c.const(1, w)
        nb = S.Not(b)
        S.If(b, S.If(b, x, y), k)
        S.If(b, S.If(nb, x, y), k)
        S.If(b, x, S.If(b, y, k))
        S.If(b, x, S.If(nb, y, k))
        S.If(nb, S.If(b, x, y), k)
        S.If(nb, x, S.If(b, y, k))
        S.If(b, S.If(d, x, y), S.If(d, x, y))
        S.If(b, S.If(d, x, y), S.If(b, k, y))
        S.If(S.And(b, d), S.If(b, x, y), k)
        t, f = c.true(), c.false()
        S.If(b, t, f)
        S.If(b, f, t)
        S.If(b, d, d)
        S.If(b, d, S.Not(d))
        S.If(b, S.If(b, d, t), f)
        S.If(x == y, x, y)
        S.If(x == x, x, y)
        S.If(True, x, y)
        S.If(False, x, y)
        S.If(b, 1, x)
        S.If(b, x, 1)
        S.If(b, x, y) + S.If(b, y, x)
        S.If(b, x, y) == S.If(d, x, y)

    inst(f"ite.nested|w={w}", V, body)


def d_fold(inst, tier, w):
    """concrete folding of every binary / unary operation on constants (the eager concrete path)"""
    cs = list(range(1 << w)) if (w <= 4 or (w <= 8 and tier == "thorough")) else consts(w)
    big = w > 16

    def body(c, a):
        A = c.const(a, w)
        keep = [c.const(b, w) for b in cs]  # all constants stay alive (hash-cons aliasing shows)
        -A
        ~A
        for B in keep:
            b = B.tab[0]
            A + B
            A - B
            A * B
            A & B
            A | B
            A ^ B
            A == B
            A != B
            A < B
            A <= B
            A > B
            A >= B
            S.SLT(A, B)
            S.SLE(A, B)
            S.SGT(A, B)
            S.SGE(A, B)
            S.Concat(A, B)
            for f in (lambda: A // B, lambda: A % B, lambda: S.SDiv(A, B), lambda: S.SMod(A, B)):
                try:
                    f()
                except Skip:
                    c.part.count("zero_division_accepted")
            if not big or b <= 4 * w:
                A << B
                A >> B
                S.LShR(A, B)
            S.RotateLeft(A, B)
            S.RotateRight(A, B)
            x = c.bv("x", w)
            x + B
            B - x
            x ^ B
        for k in (0, 1, 2, 7):
            S.ZeroExt(k, A)
            S.SignExt(k, A)
        for hi, lo in {(w - 1, 0), (w - 1, w - 1), (0, 0), (w - 1, 1), (w - 2, 0)} if w > 1 else {(0, 0)}:
            S.Extract(hi, lo, A)
        if w % 8 == 0:
            S.Reverse(A)

    for a in cs:
        inst(f"fold|w={w}|a={a}", [("x", w, [0, 1, mask(w), 5 & mask(w)])], lambda c, a=a: body(c, a))


# ---------------------------------------------------------------------------------------------
# work list and parallel runner
# ---------------------------------------------------------------------------------------------

DRIVERS = {
    "reverse": d_reverse,
    "eqne": d_eqne,
    "zeroext_cmp": d_zeroext_cmp,
    "booland": d_booland,
    "addsub": d_addsub,
    "minmax": d_minmax,
    "rotmask": d_rotmask,
    "andmisc": d_andmisc,
    "shifts": d_shifts,
    "extract": d_extract,
    "concat": d_concat,
    "ite": d_ite,
    "fold": d_fold,
}


def work_items(tier):
    q = tier == "quick"
    items = []
    for w in (16, 24, 32) if q else (16, 24, 32, 40, 64):
        items.append(("reverse", w))
    for w in (1, 2, 3, 8) if q else (1, 2, 3, 4, 8, 16):
        items.append(("eqne", w))
    for w in (1, 2, 3) if q else (1, 2, 3, 4, 8):
        items.append(("zeroext_cmp", w))
    for w in (1, 2, 3) if q else (1, 2, 3, 4, 8):
        items.append(("booland", w))
        items.append(("addsub", w))
    for w in (2, 3, 4) if q else (2, 3, 4, 5, 8, 16):
        items.append(("minmax", w))
    for n in (32, 64):
        items.append(("rotmask", n))
    for w in (2, 3, 4) if q else (2, 3, 4, 5, 8):
        items.append(("andmisc", w))
    for w in (1, 2, 3) if q else (1, 2, 3, 4):
        items.append(("shifts", w))
        items.append(("extract", w))
    for w in (1, 2, 3, 4) if q else (1, 2, 3, 4, 8):
        items.append(("concat", w))
        items.append(("ite", w))
    for w in (1, 2, 3, 4, 5, 6, 7, 8, 12, 16, 24, 32, 63, 64, 65, 128) if q else (1, 2, 3, 4, 5, 6, 7, 8, 9, 12, 16, 24, 31, 32, 33, 48, 63, 64, 65, 96, 127, 128, 129, 256):
        items.append(("fold", w))
    return items


def _run_item(args):
    import importlib

    name, w, tier, monitor = args
    modname, fn = monitor.split(":")
    on_check = getattr(importlib.import_module(modname), fn)
    part = Part()
    inst = Inst(part, on_check)
    DRIVERS[name](inst, tier, w)
    part.note("pattern_drivers", f"{name}/w={w}")
    return part.dump()


def run_patterns(report, monitor: str, tier: str, only=None):
    items = [(n, w, tier, monitor) for n, w in work_items(tier) if only is None or n in only]
    for res in pmap(_run_item, items):
        report.merge(res)
