"""pattern drivers (filled in below)"""


def run_patterns(report, monitor, tier):
    return
