"""E5 – controlled scheduler for real threads (baton passing).

Exactly one thread runs between two scheduling points; at each point the explorer chooses which
thread continues.  Points are delivered by `sys.settrace` line events inside chosen code objects, by
explicit `yield_point` calls, and by the model lock.  Exploration is depth-first over choice
prefixes with replay and visited-state pruning (`explore`).
"""

from __future__ import annotations

import sys
import threading


class Deadlock(Exception):
    pass


class ModelLock:
    """replacement for a threading.Lock used by the code under test; acquire is a scheduling point
    and a thread waiting for an owned lock is not enabled"""

    def __init__(self, sched, fault_at=None):
        self.sched = sched
        self.owner = None
        self.fault_at = fault_at  # raise KeyboardInterrupt at the n-th acquisition attempt (fault injection)
        self.attempts = 0

    def acquire(self, blocking=True, timeout=-1):
        me = self.sched.current()
        if me is None:  # outside a controlled run
            self.owner = "outside"
            return True
        self.attempts += 1
        if self.fault_at is not None and self.attempts == self.fault_at:
            raise KeyboardInterrupt("injected while acquiring the GC lock")
        while True:
            self.sched.yield_point(me, ("acquire",), want_lock=self)
            if self.owner is None:
                self.owner = me
                return True

    def release(self):
        self.owner = None

    def __enter__(self):
        self.acquire()
        return self

    def __exit__(self, *a):
        self.release()
        return False

    def locked(self):
        return self.owner is not None


class Scheduler:
    """one controlled execution of several thread bodies under a given choice prefix"""

    def __init__(self, bodies, codes, prefix=(), state_fn=None, invariant=None, max_steps=4000, line_events=True):
        self.line_events = line_events  # False: only the entry of a chosen function is a scheduling point
        self.bodies = bodies
        self.codes = codes  # set of code objects whose line events are scheduling points
        self.prefix = list(prefix)
        self.state_fn = state_fn
        self.invariant = invariant
        self.max_steps = max_steps
        n = len(bodies)
        self.sems = [threading.Semaphore(0) for _ in range(n)]
        self.back = threading.Semaphore(0)
        self.pos = [("start",)] * n
        self.want = [None] * n
        self.done = [False] * n
        self.exc = [None] * n
        self.tids = {}
        self.choices = []
        self.points = []  # number of enabled threads at each decision
        self.keys = []  # state key at each decision
        self.enabled_log = []
        self.violation = None
        self.depth = [0] * n

    # -- called by worker threads ----------------------------------------------------------------
    def current(self):
        return self.tids.get(threading.get_ident())

    def yield_point(self, me, where, want_lock=None):
        self.pos[me] = where
        self.want[me] = want_lock
        self.back.release()
        self.sems[me].acquire()
        self.want[me] = None

    def _tracer(self, frame, event, arg):
        if frame.f_code in self.codes:
            me = self.current()
            if me is None:
                return None

            def local(fr, ev, a):
                if ev == "line":
                    self.yield_point(me, (fr.f_code.co_name, fr.f_lineno))
                return local

            # the call itself is a point too (position = function entry)
            self.yield_point(me, (frame.f_code.co_name, "call"))
            return local if self.line_events else None
        return None

    def _thread_main(self, i):
        self.tids[threading.get_ident()] = i
        self.sems[i].acquire()  # wait for the first turn
        sys.settrace(self._tracer)
        try:
            self.bodies[i](self, i)
        except BaseException as e:  # the body's own exception (recorded, not a harness error)
            self.exc[i] = e
        finally:
            sys.settrace(None)
            self.done[i] = True
            self.back.release()

    # -- the controller --------------------------------------------------------------------------
    def enabled(self):
        out = []
        for i in range(len(self.bodies)):
            if self.done[i]:
                continue
            w = self.want[i]
            if w is not None and w.owner is not None and w.owner != i:
                continue
            out.append(i)
        return out

    def run(self):
        threads = [threading.Thread(target=self._thread_main, args=(i,), daemon=True) for i in range(len(self.bodies))]
        for t in threads:
            t.start()
        last = None
        step = 0
        while True:
            en = self.enabled()
            if not en:
                if all(self.done):
                    break
                self.violation = ("deadlock", list(self.pos))
                break
            # canonical order: the thread that ran last first (if still enabled), then ascending ids
            order = ([last] if last in en else []) + [i for i in en if i != last]
            key = self.state_fn(self) if self.state_fn else None
            k = self.prefix[step] if step < len(self.prefix) else 0
            if k >= len(order):
                raise RuntimeError(f"replay divergence at step {step}: choice {k} of {len(order)}")
            self.choices.append(k)
            self.points.append(len(order))
            self.keys.append(key)
            self.enabled_log.append(order)
            t = order[k]
            last = t
            self.sems[t].release()
            self.back.acquire()
            step += 1
            if self.invariant:
                v = self.invariant(self)
                if v:
                    self.violation = v
                    break
            if step > self.max_steps:
                self.violation = ("horizon", step)
                break
        # let stuck threads die with the process (daemon); finished ones are joined
        for t, d in zip(threads, self.done):
            if d:
                t.join(timeout=1)
        return self


def explore(make_run, max_executions=200000, prune=True):
    """DFS over choice prefixes. make_run(prefix) -> finished Scheduler.
    Returns dict(executions, states, violations=[(prefix, violation)], complete)."""
    seen = set()
    stack = [[]]
    executions = 0
    violations = []
    complete = True
    while stack:
        prefix = stack.pop()
        if executions >= max_executions:
            complete = False
            break
        x = make_run(prefix)
        executions += 1
        if x.violation:
            violations.append((list(x.choices), x.violation, [list(p) for p in x.pos]))
            if len(violations) >= 20:
                complete = False
                break
        for i in range(len(prefix), len(x.choices)):
            key = x.keys[i]
            if prune and key is not None:
                if key in seen:
                    break
                seen.add(key)
            for alt in range(1, x.points[i]):
                stack.append(x.choices[:i] + [alt])
    return dict(executions=executions, states=len(seen), violations=violations, complete=complete)


def explore_bounded(make_run, bound, max_executions=200000):
    """Preemption-bounded DFS without state pruning (the idiom of iterative context bounding): every schedule
    with at most `bound` preemptions is executed.  Choice 0 always continues the thread that ran last when
    it is still enabled, so any other choice at such a point is a preemption; choices at points where the last
    thread is finished or blocked are free.
    make_run(prefix) -> finished Scheduler.  Returns dict(executions, violations, complete, points_max)."""
    stack = [[]]
    executions = 0
    violations = []
    complete = True
    points_max = 0
    while stack:
        prefix = stack.pop()
        if executions >= max_executions:
            complete = False
            break
        x = make_run(prefix)
        executions += 1
        points_max = max(points_max, len(x.choices))
        if x.violation:
            violations.append((list(x.choices), x.violation))
            if len(violations) >= 10:
                complete = False
                break
            continue
        # preemptions used before each decision point
        used = 0
        last = None
        pre = []
        for i, (k, order) in enumerate(zip(x.choices, x.enabled_log)):
            pre.append(used)
            t = order[k]
            if last is not None and last in order and t != last:
                used += 1
            last = t
        last = None
        for i in range(len(x.choices)):
            order = x.enabled_log[i]
            if i >= len(prefix):
                for alt in range(1, x.points[i]):
                    cost = pre[i] + (1 if (last is not None and last in order) else 0)
                    if cost <= bound:
                        stack.append(x.choices[:i] + [alt])
            last = order[x.choices[i]]
    return dict(executions=executions, violations=violations, complete=complete, points_max=points_max)
