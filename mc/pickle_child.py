"""Child process of C18: started with a different PYTHONHASHSEED; loads pickles written by the parent
and reports (a) canonical structure + truth-table digest of every expression, (b) for every solver
the failures of a query battery against the brute-force oracle.  Prints one JSON document."""

from __future__ import annotations

import hashlib
import json
import logging
import os
import pickle
import sys
import threading

sys.path.insert(0, os.path.dirname(os.path.dirname(os.path.abspath(__file__))))
logging.disable(logging.CRITICAL)


def main():
    path = sys.argv[1]
    import claripy  # noqa: F401

    from mc import histspace as H
    from mc.checks import c18
    from mc.refsem import show

    with open(path, "rb") as f:
        job = pickle.load(f)
    out = {"exprs": [], "solvers": [], "hashseed": os.environ.get("PYTHONHASHSEED")}
    if job.get("exprs") is not None:
        exprs = pickle.loads(job["exprs"])
        for e in exprs:
            out["exprs"].append(c18.expr_fingerprint(e))
        if job.get("rebuild_tier"):
            # build the same pool natively in this interpreter: hash-consing must hand back the unpickled objects
            native = c18.expr_pool(job["rebuild_tier"])
            bad = []
            n = 0
            for u, v in zip(exprs, native):
                n += 1
                if u is not v:
                    why = "hash differs" if u.hash() != v.hash() else "same hash, different object"
                    if show(u) != show(v):
                        why = "pool order differs (harness)"
                    bad.append([show(u)[:200], why])
            out["not_identical_to_native"] = bad[:50]
            out["native_compared"] = n
    if job.get("solvers"):

        def body():
            uni = H.universe(job["uni"])
            for item in job["solvers"]:
                try:
                    s = pickle.loads(item["blob"])
                except Exception as ex:
                    out["solvers"].append({"id": item["id"], "failure": {"reason": "unpickle-raised:" + type(ex).__name__, "msg": str(ex)[:200]}})
                    continue
                run = H.Run.__new__(H.Run)
                run.uni, run.cls, run.cfg = uni, item["cls"], item["cfg"]
                run.s, run.ref, run.log, run.failure = s, list(item["ref"]), [], None
                run.targets, run.cur = [[s, run.ref]], 0
                run.approx = item["cfg"].get("approx", False)
                fail = None
                for q in item["queries"]:
                    if not H.apply_event(run, tuple(q), check=True):
                        fail = {"reason": "after-unpickle:" + str(q[0]) + ":" + str((run.failure or {}).get("reason")), "query": H.ev_label(tuple(q)), "detail": run.failure}
                        break
                out["solvers"].append({"id": item["id"], "failure": fail, "log": [[a, list(b) if isinstance(b, tuple) else b] for a, b in run.log]})

        t = threading.Thread(target=body)
        t.start()
        t.join()
    sys.stdout.write(json.dumps(out, default=str))


if __name__ == "__main__":
    main()
