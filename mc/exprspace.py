"""E1 – explicit-state search over claripy expressions.

State      = a live claripy AST (hash-consing makes the object the canonical key).
Transition = one public operation applied to a state and partner operand(s) from a small alphabet.
Each transition knows (a) how to call claripy's *public* API and (b) the expected truth table,
computed from the operand tables with refsem (`apply_tables`) – the inductive oracle of DESIGN §1.2.
"""

from __future__ import annotations

import operator

import claripy

from . import refsem
from .refsem import Den, Scope, mask, show


class Tr:
    """one transition"""

    __slots__ = ("key", "build", "sem", "operands", "params", "divisor", "api")

    def __init__(self, key, build, sem, operands, params=(), divisor=None, api=""):
        self.key = key  # canonical string (case key)
        self.build = build  # thunk calling the public API
        self.sem = sem  # refsem op name
        self.operands = operands  # list of ASTs / python ints / bools in semantic order
        self.params = params
        self.divisor = divisor  # index in operands of the divisor for div/rem ops
        self.api = api


PY_BIN = [
    ("__add__", operator.add, "+"),
    ("__sub__", operator.sub, "-"),
    ("__mul__", operator.mul, "*"),
    ("__floordiv__", operator.floordiv, "//"),
    ("__truediv__", operator.truediv, "/"),
    ("__mod__", operator.mod, "%"),
    ("__and__", operator.and_, "&"),
    ("__or__", operator.or_, "|"),
    ("__xor__", operator.xor, "^"),
    ("__lshift__", operator.lshift, "<<"),
    ("__rshift__", operator.rshift, ">>"),
]
PY_CMP = [
    ("__eq__", operator.eq, "=="),
    ("__ne__", operator.ne, "!="),
    ("ULT", operator.lt, "<"),
    ("ULE", operator.le, "<="),
    ("UGT", operator.gt, ">"),
    ("UGE", operator.ge, ">="),
]
FN_BIN = ["SDiv", "SMod", "LShR", "RotateLeft", "RotateRight"]
FN_CMP = ["ULT", "ULE", "UGT", "UGE", "SLT", "SLE", "SGT", "SGE"]


class Space:
    def __init__(self, w: int, nbv: int = 2, nbool: int = 1, max_width: int | None = None, tag: str = ""):
        self.w = w
        names = ["x", "y", "z"][:nbv]
        self.bvnames = [f"{n}{w}{tag}" for n in names]
        self.boolnames = [f"{n}{tag}" for n in ["c", "d"][:nbool]]
        self.scope = Scope([(n, w) for n in self.bvnames], self.boolnames)
        self.den = Den(self.scope)
        self.bvs = [claripy.BVS(n, w, explicit_name=True) for n in self.bvnames]
        self.bools = [claripy.BoolS(n, explicit_name=True) for n in self.boolnames]
        self.max_width = max_width if max_width is not None else 2 * w
        self.extra_bv_partners: dict[int, list] = {}  # width -> extra AST partners (depth-1 states)
        self.extra_bool_partners: list = []

    # -- tables of operands ------------------------------------------------------------------
    def table(self, v, width=None):
        if isinstance(v, claripy.ast.Base):
            return self.den(v)
        if isinstance(v, bool):
            return self.scope.const(v)
        if isinstance(v, int):
            return self.scope.const(v & mask(width))
        raise TypeError(v)

    def leaves(self):
        return list(self.bvs) + list(self.bools)

    def consts(self, n: int) -> list[int]:
        if n <= 4:
            return list(range(1 << n))
        m = mask(n)
        c = {0, 1, 2, 3, n - 1, n, n + 1, (1 << (n - 1)) - 1, 1 << (n - 1), (1 << (n - 1)) + 1, m - 1, m}
        return sorted(v for v in c if 0 <= v <= m)

    def bv_partners(self, n: int, small=False):
        """(label, operand) pairs; operand is an AST or a Python int"""
        out = []
        if n == self.w:
            out += [(show(v), v) for v in self.bvs]
        out += [(show(v), v) for v in self.extra_bv_partners.get(n, ())]
        cs = self.consts(n)
        if small:
            cs = sorted({0, 1, mask(n), 1 << (n - 1)} & set(cs))
        out += [(f"bvv{c}", claripy.BVV(c, n)) for c in cs]
        return out

    def int_partners(self, n: int):
        cs = sorted({0, 1, 2, mask(n), (1 << (n - 1)), -1} if n > 1 else {0, 1, -1})
        return [(f"int{c}", c) for c in cs]

    def bool_partners(self):
        out = [(show(v), v) for v in self.bools]
        out += [(show(v), v) for v in self.extra_bool_partners]
        out += [("T", claripy.true()), ("F", claripy.false())]
        return out

    # -- transitions -------------------------------------------------------------------------
    def transitions(self, s, full=True):
        if isinstance(s, claripy.ast.BV):
            yield from self._bv_transitions(s, full)
        elif isinstance(s, claripy.ast.Bool):
            yield from self._bool_transitions(s, full)

    def _bv_transitions(self, s, full):
        n = s.length
        ks = show(s)
        # unary
        yield Tr(f"neg|{ks}", lambda: -s, "__neg__", [s], api="-s")
        yield Tr(f"inv|{ks}", lambda: ~s, "__invert__", [s], api="~s")
        if n % 8 == 0:
            yield Tr(f"Reverse|{ks}", lambda: claripy.Reverse(s), "Reverse", [s], api="Reverse")
            yield Tr(f"reversed|{ks}", lambda: s.reversed, "Reverse", [s], api=".reversed")
        # extracts
        for hi in range(n):
            for lo in range(hi + 1):
                yield Tr(
                    f"Extract{hi}:{lo}|{ks}",
                    (lambda hi=hi, lo=lo: claripy.Extract(hi, lo, s)),
                    "Extract",
                    [s],
                    (hi, lo),
                    api="Extract",
                )
                yield Tr(
                    f"slice{hi}:{lo}|{ks}", (lambda hi=hi, lo=lo: s[hi:lo]), "Extract", [s], (hi, lo), api="s[h:l]"
                )
        for i in range(n):
            yield Tr(f"index{i}|{ks}", (lambda i=i: s[i]), "Extract", [s], (i, i), api="s[i]")
        # negative / omitted slice bounds
        yield Tr(f"slice:|{ks}", lambda: s[:], "Extract", [s], (n - 1, 0), api="s[:]")
        if n >= 2:
            yield Tr(f"slice-1:|{ks}", lambda: s[-1:], "Extract", [s], (n - 1, 0), api="s[-1:]")
            yield Tr(f"slice:-{n - 1}|{ks}", lambda: s[: -(n - 1)], "Extract", [s], (n - 1, 1), api="s[:-k]")
            yield Tr(f"slice-2:-{n}|{ks}", lambda: s[-2:-n], "Extract", [s], (n - 2, 0), api="s[-a:-b]")
        # extensions
        for k in (0, 1, 2):
            if n + k <= self.max_width:
                yield Tr(f"ZeroExt{k}|{ks}", (lambda k=k: claripy.ZeroExt(k, s)), "ZeroExt", [s], (k,), api="ZeroExt")
                yield Tr(f"SignExt{k}|{ks}", (lambda k=k: claripy.SignExt(k, s)), "SignExt", [s], (k,), api="SignExt")
        if n + 1 <= self.max_width:
            yield Tr(f"zero_extend1|{ks}", lambda: s.zero_extend(1), "ZeroExt", [s], (1,), api=".zero_extend")
            yield Tr(f"sign_extend1|{ks}", lambda: s.sign_extend(1), "SignExt", [s], (1,), api=".sign_extend")

        partners = self.bv_partners(n, small=not full)
        for pl, p in partners:
            for sem, f, sym in PY_BIN:
                dv = 1 if sem in refsem.DIV_OPS else None
                yield Tr(f"{sem}|{ks}|{pl}", (lambda f=f, p=p: f(s, p)), sem, [s, p], divisor=dv, api=f"s{sym}p")
                if p is not s:
                    yield Tr(f"{sem}|{pl}|{ks}", (lambda f=f, p=p: f(p, s)), sem, [p, s], divisor=dv, api=f"p{sym}s")
            for sem, f, sym in PY_CMP:
                yield Tr(f"{sem}|{ks}|{pl}", (lambda f=f, p=p: f(s, p)), sem, [s, p], api=f"s{sym}p")
                if p is not s:
                    yield Tr(f"{sem}|{pl}|{ks}", (lambda f=f, p=p: f(p, s)), sem, [p, s], api=f"p{sym}s")
            for sem in FN_BIN:
                fn = getattr(claripy, sem)
                dv = 1 if sem in refsem.DIV_OPS else None
                yield Tr(f"{sem}|{ks}|{pl}", (lambda fn=fn, p=p: fn(s, p)), sem, [s, p], divisor=dv, api=sem)
                if p is not s:
                    yield Tr(f"{sem}|{pl}|{ks}", (lambda fn=fn, p=p: fn(p, s)), sem, [p, s], divisor=dv, api=sem)
            for sem in FN_CMP:
                fn = getattr(claripy, sem)
                yield Tr(f"fn{sem}|{ks}|{pl}", (lambda fn=fn, p=p: fn(s, p)), sem, [s, p], api=sem)
                if p is not s:
                    yield Tr(f"fn{sem}|{pl}|{ks}", (lambda fn=fn, p=p: fn(p, s)), sem, [p, s], api=sem)
            if 2 * n <= self.max_width:
                yield Tr(f"Concat|{ks}|{pl}", (lambda p=p: claripy.Concat(s, p)), "Concat", [s, p], api="Concat")
                if p is not s:
                    yield Tr(f"Concat|{pl}|{ks}", (lambda p=p: claripy.Concat(p, s)), "Concat", [p, s], api="Concat")
                    yield Tr(f"concat|{ks}|{pl}", (lambda p=p: s.concat(p)), "Concat", [s, p], api=".concat")
            # If with every Boolean partner
            for bl, b in self.bool_partners():
                yield Tr(f"If|{bl}|{ks}|{pl}", (lambda b=b, p=p: claripy.If(b, s, p)), "If", [b, s, p], api="If")
                if p is not s:
                    yield Tr(f"If|{bl}|{pl}|{ks}", (lambda b=b, p=p: claripy.If(b, p, s)), "If", [b, p, s], api="If")

        # python ints on either side (reversed operators and implicit coercion)
        for il, i in self.int_partners(n):
            for sem, f, sym in PY_BIN:
                dv = 1 if sem in refsem.DIV_OPS else None
                yield Tr(f"{sem}|{ks}|{il}", (lambda f=f, i=i: f(s, i)), sem, [s, i], divisor=dv, api=f"s{sym}int")
                yield Tr(f"{sem}|{il}|{ks}", (lambda f=f, i=i: f(i, s)), sem, [i, s], divisor=dv, api=f"int{sym}s")
            for sem, f, sym in PY_CMP:
                yield Tr(f"{sem}|{ks}|{il}", (lambda f=f, i=i: f(s, i)), sem, [s, i], api=f"s{sym}int")
            for sem in FN_BIN:
                fn = getattr(claripy, sem)
                dv = 1 if sem in refsem.DIV_OPS else None
                yield Tr(f"{sem}|{ks}|{il}", (lambda fn=fn, i=i: fn(s, i)), sem, [s, i], divisor=dv, api=sem + "(s,int)")
                yield Tr(f"{sem}|{il}|{ks}", (lambda fn=fn, i=i: fn(i, s)), sem, [i, s], divisor=dv, api=sem + "(int,s)")
            for sem in ("SLT", "SGE", "ULE"):
                fn = getattr(claripy, sem)
                yield Tr(f"fn{sem}|{ks}|{il}", (lambda fn=fn, i=i: fn(s, i)), sem, [s, i], api=sem + "(s,int)")
            for bl, b in self.bool_partners()[:2]:
                yield Tr(f"If|{bl}|{ks}|{il}", (lambda b=b, i=i: claripy.If(b, s, i)), "If", [b, s, i], api="If(b,s,int)")
                yield Tr(f"If|{bl}|{il}|{ks}", (lambda b=b, i=i: claripy.If(b, i, s)), "If", [b, i, s], api="If(b,int,s)")

        # n-ary forms
        if full and 3 * n <= self.max_width:
            for pl, p in partners[:3]:
                for ql, q in partners[:3]:
                    yield Tr(
                        f"Concat|{ks}|{pl}|{ql}",
                        (lambda p=p, q=q: claripy.Concat(s, p, q)),
                        "Concat",
                        [s, p, q],
                        api="Concat3",
                    )

    def _bool_transitions(self, s, full):
        ks = show(s)
        yield Tr(f"Not|{ks}", lambda: claripy.Not(s), "Not", [s], api="Not")
        yield Tr(f"invb|{ks}", lambda: ~s, "Not", [s], api="~b")
        bps = self.bool_partners()
        for pl, p in bps:
            yield Tr(f"And|{ks}|{pl}", (lambda p=p: claripy.And(s, p)), "And", [s, p], api="And")
            yield Tr(f"Or|{ks}|{pl}", (lambda p=p: claripy.Or(s, p)), "Or", [s, p], api="Or")
            yield Tr(f"beq|{ks}|{pl}", (lambda p=p: s == p), "__eq__", [s, p], api="b==q")
            yield Tr(f"bne|{ks}|{pl}", (lambda p=p: s != p), "__ne__", [s, p], api="b!=q")
            if p is not s:
                yield Tr(f"And|{pl}|{ks}", (lambda p=p: claripy.And(p, s)), "And", [p, s], api="And")
                yield Tr(f"Or|{pl}|{ks}", (lambda p=p: claripy.Or(p, s)), "Or", [p, s], api="Or")
                yield Tr(f"band|{ks}|{pl}", (lambda p=p: s & p), "And", [s, p], api="b&q")
                yield Tr(f"bor|{pl}|{ks}", (lambda p=p: p | s), "Or", [p, s], api="q|b")
                yield Tr(f"beq|{pl}|{ks}", (lambda p=p: p == s), "__eq__", [p, s], api="q==b")
            # Bool-valued If
            for ql, q in bps:
                yield Tr(f"If|{ks}|{pl}|{ql}", (lambda p=p, q=q: claripy.If(s, p, q)), "If", [s, p, q], api="IfBool")
                if full:
                    yield Tr(f"If|{pl}|{ks}|{ql}", (lambda p=p, q=q: claripy.If(p, s, q)), "If", [p, s, q], api="IfBool")
            if full:
                for ql, q in bps[:3]:
                    yield Tr(f"And3|{ks}|{pl}|{ql}", (lambda p=p, q=q: claripy.And(s, p, q)), "And", [s, p, q], api="And3")
                    yield Tr(f"Or3|{ks}|{pl}|{ql}", (lambda p=p, q=q: claripy.Or(s, p, q)), "Or", [s, p, q], api="Or3")
        for b in (True, False):
            yield Tr(f"And|{ks}|py{b}", (lambda b=b: claripy.And(s, b)), "And", [s, b], api="And(b,bool)")
            yield Tr(f"Or|py{b}|{ks}", (lambda b=b: claripy.Or(b, s)), "Or", [b, s], api="Or(bool,b)")
        # BV-valued If with this condition
        for n in sorted({self.w} | set(self.extra_bv_partners)):
            ps = self.bv_partners(n, small=not full)
            for pl, p in ps:
                for ql, q in ps:
                    yield Tr(f"If|{ks}|{pl}|{ql}", (lambda p=p, q=q: claripy.If(s, p, q)), "If", [s, p, q], api="If")
            for il, i in self.int_partners(n)[:3]:
                pl, p = ps[0]
                yield Tr(f"If|{ks}|{pl}|{il}", (lambda p=p, i=i: claripy.If(s, p, i)), "If", [s, p, i], api="If(b,s,int)")
        pl, p = self.bv_partners(self.w)[0]
        for b in (True, False):
            yield Tr(f"If|py{b}|{ks}..", (lambda b=b: claripy.If(b, s, claripy.Not(s))), "If", [b, s, claripy.Not(s)], api="If(bool,..)")

    # -- expected table of a transition --------------------------------------------------------
    def expected(self, tr: Tr):
        ops = tr.operands
        # width of the BV operands (ints take the width of the AST operand)
        w = None
        for o in ops:
            if isinstance(o, claripy.ast.BV):
                w = o.length
                if tr.sem != "If":
                    break
        if tr.sem == "Concat":
            widths = [o.length for o in ops]
            tabs = [self.den(o) for o in ops]
            return refsem.apply_tables("Concat", tabs, widths)
        tabs = []
        widths = []
        for o in ops:
            if isinstance(o, claripy.ast.Bool) or isinstance(o, bool):
                tabs.append(self.table(o))
                widths.append(None)
            else:
                tabs.append(self.table(o, w))
                widths.append(w)
        return refsem.apply_tables(tr.sem, tabs, widths, tr.params)

    def divisor_is_zero(self, tr: Tr) -> bool:
        if tr.divisor is None:
            return False
        o = tr.operands[tr.divisor]
        w = None
        for x in tr.operands:
            if isinstance(x, claripy.ast.BV):
                w = x.length
        t = self.table(o, w)
        return not any(t)


def site_sig(tr: Tr) -> str:
    """coarse signature of a transition: op + root ops of operands"""

    def root(o):
        if isinstance(o, claripy.ast.Base):
            return o.op
        return type(o).__name__

    return f"{tr.sem}({','.join(root(o) for o in tr.operands)})"


# ---------------------------------------------------------------------------------------------
# sharded breadth-first driver
# ---------------------------------------------------------------------------------------------


def explore_shard(args):
    """args = dict(w, depth, shard, nshards, full, monitor='module:function', opts={})
    The monitor is called as monitor(space, tr, part, opts) for every transition and returns the
    successor state (a claripy AST) or None.  Level-1 states are recomputed by every shard (cheap);
    only shard 0 records what the level-0 transitions showed."""
    import importlib

    from .common import Part

    w, depth, shard, nshards = args["w"], args["depth"], args["shard"], args["nshards"]
    full = args.get("full", True)
    opts = args.get("opts", {})
    modname, fn = args["monitor"].split(":")
    monitor = getattr(importlib.import_module(modname), fn)
    space = Space(w, nbv=args.get("nbv", 2), nbool=args.get("nbool", 1), max_width=args.get("max_width"))
    part = Part()
    dummy = Part()

    level0 = list(space.leaves()) + [claripy.BVV(c, w) for c in space.consts(w)]
    if args.get("seed_states"):
        level0 += args["seed_states"](space)
    seen = {id(s): s for s in level0}
    state_hashes = {s._hash for s in level0}
    frontier = []
    p0 = part if shard == 0 else dummy
    for s in level0:
        for tr in space.transitions(s, full=True):
            r = monitor(space, tr, p0, opts)
            if r is not None and id(r) not in seen:
                seen[id(r)] = r
                frontier.append(r)
    if shard == 0:
        state_hashes |= {s._hash for s in frontier}

    cap_width = space.max_width
    for d in range(2, depth + 1):
        mine = [s for i, s in enumerate(frontier) if (d > 2 or i % nshards == shard)]
        nxt = []
        last = d == depth
        use_full = full if d == 2 else False
        for s in mine:
            if isinstance(s, claripy.ast.BV) and s.length > cap_width:
                continue
            if d > 2 and not opts.get("expand_all") and not rewrite_sensitive(s):
                continue
            for tr in space.transitions(s, full=use_full):
                r = monitor(space, tr, part, opts)
                if r is not None and id(r) not in seen:
                    seen[id(r)] = r
                    state_hashes.add(r._hash)
                    if not last:
                        nxt.append(r)
        frontier = nxt
    out = part.dump()
    out["state_hashes"] = state_hashes
    return out


_SENSITIVE = None


def rewrite_sensitive(s) -> bool:
    global _SENSITIVE
    if _SENSITIVE is None:
        import claripy.simplifications as S

        _SENSITIVE = set(S._all_simplifiers) | {"If"}
    return s.op in _SENSITIVE


def run_e1(report, monitor: str, configs: list[dict], nshards: int = 48):
    """configs: list of dict(w=, depth=, full=, opts=...)"""
    from .common import pmap

    items = []
    for cfg in configs:
        for sh in range(nshards):
            it = dict(cfg)
            it.update(shard=sh, nshards=nshards, monitor=monitor)
            items.append(it)
    hashes: dict[int, set] = {}
    for res in pmap(explore_shard, items):
        hs = res.pop("state_hashes", set())
        report.merge(res)
        hashes.setdefault(0, set()).update(hs)
    report.counts["states"] = report.counts.get("states", 0) + len(hashes.get(0, ()))


def find_transition(space, key, depth=3):
    """re-find a transition by its canonical key (used by --replay): BFS again, no monitor"""
    level = list(space.leaves()) + [claripy.BVV(c, space.w) for c in space.consts(space.w)]
    seen = {id(s) for s in level}
    for _ in range(depth):
        nxt = []
        for s in level:
            for tr in space.transitions(s, full=True):
                if tr.key == key:
                    return tr
                try:
                    r = tr.build()
                except Exception:
                    continue
                if isinstance(r, claripy.ast.Base) and id(r) not in seen:
                    seen.add(id(r))
                    nxt.append(r)
        level = nxt
    return None
