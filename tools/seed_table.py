#!/venv/bin/python
"""Prints the markdown table of seeded changes (seeded/*/meta.json) for DESIGN.md §7."""
import json, os, glob

ROOT = os.path.dirname(os.path.dirname(os.path.abspath(__file__)))
rows = []
for d in sorted(glob.glob(os.path.join(ROOT, "seeded", "*"))):
    mp = os.path.join(d, "meta.json")
    if not os.path.exists(mp):
        continue
    m = json.load(open(mp))
    name = os.path.basename(d)
    runs = m.get("checks_run", {})
    caught = sorted(p for p, r in runs.items() if r.get("violations", 0) > 0 or r.get("rc") == 1)
    missed = sorted(p for p, r in runs.items() if p not in caught)
    rows.append((name, m.get("property"), ", ".join(m.get("files_touched", []))[:70], m.get("summary", "")[:110], ", ".join(caught) or "-", ", ".join(missed) or "-", m.get("note", "")))
print("| change | property | file | what it breaks | caught by (quick) | run but silent | note |")
print("|---|---|---|---|---|---|---|")
for r in rows:
    print("| " + " | ".join(str(x).replace("|", "/") for x in r) + " |")
