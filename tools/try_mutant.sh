#!/bin/bash
# usage: tools/try_mutant.sh <patch.diff> <PID> [<PID>...]   (applies to /repo, runs quick checks, reverts)
set -u
diff="$1"; shift
cd /repo || exit 2
if ! git diff --quiet; then echo "repo dirty"; exit 2; fi
if ! git apply "$diff"; then echo "APPLY-FAILED $diff"; exit 3; fi
cd /verif
for pid in "$@"; do
  out=$(/venv/bin/python check.py "$pid" --tier "${TIER:-quick}" 2>&1); rc=$?
  echo "== $pid rc=$rc  $(echo "$out" | grep -c '^VIOLATION') violation lines"
  echo "$out" | grep -A2 '^VIOLATION' | head -${SHOW:-6}
  echo "$out" | grep -E 'ORACLE-ERROR|Traceback' | head -3
done
git -C /repo checkout -- . 
git -C /repo status --short | head -3
