#!/bin/bash
# usage: tools/try_mutant_wt.sh <worktree> <patch.diff> <PID> [<PID>...]
# Applies the patch in a scratch worktree of /repo, runs the checks against it (PYTHONPATH puts the worktree
# before the editable install), reverts the worktree.  Output of the checks goes to a scratch directory.
set -u
wt="$1"; diff="$2"; shift 2
git -C "$wt" checkout -q -- . || exit 2
git -C "$wt" checkout -q --detach "$(git -C /repo rev-parse HEAD)" || exit 2   # the mutant goes on top of /repo's current HEAD
git -C "$wt" apply "$diff" || { echo "APPLY-FAILED $diff"; exit 3; }
scratch=$(mktemp -d /tmp/vscratch.XXXXXX)
cd /verif
for pid in "$@"; do
  s=$(date +%s)
  out=$(PYTHONPATH="$wt" VERIF_SCRATCH="$scratch" /venv/bin/python check.py "$pid" --tier "${TIER:-quick}" 2>&1); rc=$?
  echo "== $(basename $diff) $pid rc=$rc  $(echo "$out" | grep -c '^VIOLATION') violation lines  $(( $(date +%s)-s ))s"
  echo "$out" | grep -A2 '^VIOLATION' | cut -c1-300 | head -${SHOW:-6}
  echo "$out" | grep -E 'ORACLE-ERROR|Traceback' | head -3
done
git -C "$wt" checkout -q -- .
rm -rf "$scratch"
