#!/venv/bin/python
"""Regenerates /verif/MANIFEST.json from the table below (run after adding a check)."""

from __future__ import annotations

import json
import os

ROOT = os.path.dirname(os.path.dirname(os.path.abspath(__file__)))

# id -> (level, technique, text, note, design_ref)
CHECKS = {
    "C01": (
        "model_checking",
        "explicit-state BFS over expressions (E1) on the real constructors; truth-table oracle over all assignments",
        "Every transition (one public operation on a reachable AST with every partner operand of the alphabet) at widths "
        "1-3 (thorough 1-4, depth 3) is executed on the real code and its result interpreted node-by-node over ALL "
        "assignments; plus pattern drivers for shape/byte-width dependent rewrites and ground evaluation of the Z3 translation.",
        "Trusts refsem (SMT-LIB op table on Python ints, cross-checked against Z3 ground evaluation at set-up). Says "
        "nothing beyond the stated widths/alphabets.",
        "DESIGN.md §1.2, §2 C01",
    ),
    "C11": (
        "model_checking",
        "explicit-state BFS over solver event histories (E4) on the real frontends; brute-force model-set oracle",
        "Every history of add/satisfiable/eval/batch_eval/min/max (signed, unsigned, with extra constraints)/solution/"
        "is_true/is_false/simplify/downsize/branch/pickle up to depth 3-4 (thorough 5-6 on sub-alphabets, solver reuse "
        "on/off) is replayed on a fresh solver and each answer compared with the brute-force model set over x,y:BV3,c:Bool. Plus an optimum-cutting alphabet (each add removes one extreme value) to depth 4-5.",
        "Reference = truth tables of the constraints (refsem). Fresh thread per history gives a fresh z3 context "
        "(deterministic). Bounded depth and alphabet; SolverStrings covered by C03/C26 drivers.",
        "DESIGN.md §1.3, §2 C11",
    ),
    "C21": (
        "model_checking",
        "exhaustive value-domain exploration (E3): all strided intervals of width<=3 (4 thorough), all pairs, all ops",
        "Every transfer function on every (ordered pair of) well-formed strided interval(s) of width 1-3 (thorough: "
        "+closure round, width 4), checked against brute-force concretisation of all member pairs.",
        "gamma defined by us (lb + k*stride while distance <= ub-lb); known unsound cases are listed exactly "
        "(known/C21/*.txt.gz), any other failing pair is a violation.",
        "DESIGN.md §1.2b, §2 C21",
    ),
    "C22": (
        "model_checking",
        "exhaustive value-domain exploration (E3): joins/meets/widen over all pairs, queries on all states",
        "union/least_upper_bound/pseudo_join/widen/intersection on every ordered pair (triples for lub) and "
        "eval/min/max/cardinality/solution on every strided interval of width 1-3 (4 thorough) against the member sets.",
        "Same gamma as C21; known failing cases listed exactly.",
        "DESIGN.md §2 C22",
    ),
    "C23": (
        "model_checking",
        "exhaustive exploration of small DSIS / value-set states (E3 lifted) with a lifting oracle",
        "All 2-subsets (and a family of 3-subsets) of an interval alphabet as DSIS, all 1-region and a family of 2-region "
        "value sets; every lifted operation must contain the interval-level result of every member pair; joins, meets, "
        "collapse and queries compared with member sets.",
        "Interval-level soundness is C21/C22's business (excused here, counted in evidence).",
        "DESIGN.md §2 C23",
    ),
    "C12": (
        "model_checking",
        "explicit-state BFS over solver event histories (E4) on SolverComposite; brute-force model-set oracle",
        "Histories over four 2-bit variables whose constraints connect/disconnect child solvers in every order, queries "
        "and extras spanning 0-2 children, simplify/branch/downsize/pickle; depth 3-4 (thorough 5, reuse, track). Plus a bridging alphabet (two two-variable groups joined by a later constraint, re-split, query) to depth 5-6.",
        "As C11. merge/combine/split are decided by C15, branch isolation by C14.",
        "DESIGN.md §2 C12",
    ),
    "C13": (
        "model_checking",
        "explicit-state BFS over solver event histories (E4); exact oracle for exact modes, containment oracle for approximate modes",
        "SolverReplacement (defaults; options toggled in thorough) and SolverHybrid(exact) against the exact oracle; "
        "SolverHybrid(exact=False / approximate_first) and SolverVSA against the over-approximation oracle. Plus a replacement-cache alphabet to depth 4-5, approximate_first with an explicit exact=True against the exact oracle, signed optima for the approximate classes.",
        "As C11; an approximate solver declining a query (ClaripyFrontendError) is counted as unsupported.",
        "DESIGN.md §2 C13",
    ),
    "C14": (
        "model_checking",
        "explicit-state BFS over interleaved histories on trees of branched solvers; per-member reference + projection differential",
        "Prefix on the root, fork, then every interleaving of events over all members (nested forks), for every frontend "
        "class; a wrong answer is a leak iff the member's own projection answers correctly; approximate classes are "
        "compared literally with their projection. Includes members that downsize() a solver object created before the fork and cross-group queries on SolverComposite.",
        "As C11.",
        "DESIGN.md §2 C14",
    ),
    "C15": (
        "model_checking",
        "exhaustive enumeration of solver-state pairs/triples x merge conditions; model sets compared with the brute-force specification",
        "merge / merge with ancestor / sibling merges / combine / split on every class over all pairs of short-history "
        "states and all condition tuples; result model set read back exhaustively (128 assignments). Plus 3-way combine, splits whose last conjunct bridges two groups (added one by one and in one add), and approximate bounds of merged hybrid solvers.",
        "The result's model set is read through its own satisfiable()+batch_eval (exactness of those is C11/C12).",
        "DESIGN.md §2 C15",
    ),
    "C16": (
        "model_checking",
        "exhaustive enumeration of constraint orders on tracking solvers; truth-table check of the returned core",
        "Every order of every <=3-subset (4 on a sub-alphabet) of an 11-constraint alphabet with queries interleaved in "
        "4 variants, Solver and SolverComposite with track=True; element types, membership, unsatisfiability of the core. Plus blank_copy()+add and split() parts (no inherited core) and an annotated twin of every constraint registered first by another tracked solver of the thread.",
        "Core elements may be constraints the solver holds after its own simplification.",
        "DESIGN.md §2 C16",
    ),
    "C17": (
        "fault_enumeration",
        "enumeration of every fault position (k-th solver check) x fault kind x follow-up order over short histories (E4 + injector)",
        "The k-th z3_solver_sat call of every operation after every prefix history is made to fail before/after the Z3 "
        "check with timeout/unknown; the call must raise a ClaripyError and all later answers (same object, reversed "
        "order, fresh branch) must satisfy the brute-force oracle.",
        "Seam: module global backend_z3.z3_solver_sat, replaced at run time.",
        "DESIGN.md §2 C17",
    ),
    "C18": (
        "model_checking",
        "exhaustive enumeration of expression / solver states, round-tripped in-process and in child interpreters with other hash seeds",
        "All E1 states to depth 2 plus annotated/FP/string expressions: identity in-process, structure+metadata+truth "
        "table in children (PYTHONHASHSEED 1, 2, random); every solver state of depth <=2 (3 thorough) of every class "
        "queried after unpickling, in-process and cross-process, against the brute-force oracle. The child also rebuilds every expression natively (the unpickled object must be that object), and pre ; pickle ; post must answer exactly like pre ; post (differential, all classes incl. inexact ones).",
        "A query the never-pickled twin also gets wrong is dropped (C11-C13 decide it).",
        "DESIGN.md §2 C18",
    ),
    "C19": (
        "model_checking",
        "stateless DFS with visited-state pruning over all interleavings of real threads under a baton scheduler (line granularity)",
        "2-3 real threads run nested condom-wrapped calls; every line of _enter_z3/_exit_z3/z3_condom, every body entry "
        "and lock acquisition is a scheduling point; the lock and the GC flag are models; all reachable states visited; "
        "plus application toggles of the GC between calls and interrupts injected at every lock acquisition.",
        "Line granularity; lock and GC are run-time substitutes for backend_z3._gc_lock / backend_z3.gc.",
        "DESIGN.md §1.4, §2 C19",
    ),
    "C05": (
        "model_checking",
        "explicit-state BFS over expressions (E1) on the real constructors; metadata recomputed recursively on every transition and after every metadata-touching follow-up operation",
        "Every E1 transition at widths 1-3 (thorough 1-4, depth 3): length / variables / symbolic / concrete / depth / "
        "concrete_value of the result against a recursive recomputation, the written width and the truth table; every "
        "distinct state additionally through annotation edits, replace / replace_dict, excavate_ite, burrow_ite, "
        "canonicalize, Z3 conversion (sort width, free constants) and claripy.simplify.",
        "variables may be a superset; FP / string metadata is outside this check's operator table.",
        "DESIGN.md §2 C05",
    ),
    "C10": (
        "model_checking",
        "explicit-state BFS over expressions (E1) and over solver prefix histories (E4); every cheap truth entry point asked in both orders and twice; truth-table / brute-force model-set oracle",
        "A: every distinct Bool state of the E1 traversal (widths 1-3, thorough 1-4) through claripy.is_true/is_false, "
        "Bool.is_true/is_false and the z3 / concrete backends, forwards, backwards and twice with the truth caches "
        "emptied between orders. B: every solver state reached by <=2 (thorough 3) prefix events on six frontend "
        "classes asked is_true / is_false for 14 Bool expressions x extra-constraint sets; True must hold in every model.",
        "A False answer is never judged. The VSA backend's Boolean answers are judged by C24 (soundness of VSA evaluation).",
        "DESIGN.md §2 C10",
    ),
    "C04": (
        "model_checking",
        "bounded-exhaustive enumeration of constructions (E1 transitions + boundary-value drivers for wide BV, FP and strings) on the real constructors under an address-space limit and a CPU-time alarm; outcome classifier",
        "Every E1 transition at widths 1-3 (thorough 1-4); every binary / unary / extract / extend / conversion form over "
        "boundary constants at widths 8, 64, 65 (thorough +16, 128) in concrete, python-int, symbolic and nested-shift "
        "shapes; every FP operation x 5 rounding modes over the boundary alphabet of both sorts; every string operation "
        "over an alphabet of metacharacter / escape / NUL / non-BMP strings. Acceptable: an AST or a documented claripy error.",
        "Memory exhaustion and hangs are observable only on enumerated inputs (RLIMIT_AS 3 GiB, 8 s CPU).",
        "DESIGN.md §2 C04",
    ),
    "C02": (
        "exploration",
        "bounded-exhaustive enumeration over a boundary-value alphabet (E2): operation x rounding mode x operand tuple, each run folded and through the Z3 translation (ground evaluation); exact-rational IEEE reference",
        "All arithmetic (add, sub, mul, div, sqrt), comparisons, classification, abs/neg, float<->double, float->int at "
        "8/32/64 bits signed and unsigned, int->float, raw reinterpretation, fpFP and FPV construction, in all five "
        "rounding modes over ~47 boundary values per sort (quick: 16) and all pairs; thorough adds a closure round "
        "(depth-1 results as operands). Exhaustive over that alphabet only.",
        "Values outside the alphabet are not covered (float32/64 cannot be enumerated). fpref is self-tested against "
        "hardware and Z3 ground evaluation at set-up. Known finding: folding ignores non-RNE rounding modes (exact case lists).",
        "DESIGN.md §2 C02",
    ),
    "C03": (
        "exploration",
        "bounded-exhaustive enumeration over a string / index alphabet (E2): every operation x argument tuple, run folded and through the Z3 translation with code-point literals (ground evaluation); SMT-LIB reference functions",
        "concat, substr, replace, len, contains, prefix/suffix, index-of, to-int, from-int, ==, != over all strings of "
        "length <= 2 over a core alphabet of regex metacharacters, backslash, NUL, newline, non-ASCII and astral "
        "characters plus listed specials (quick 48 strings, thorough 142) and indices {0,1,2,3,|s|,|s|+1,2^63,2^64-1}; "
        "literal transport of every string; equality of equal strings with different annotations.",
        "Exhaustive over the stated alphabets only. strref is self-tested against Z3's own string functions at set-up.",
        "DESIGN.md §2 C03",
    ),
    "C06": (
        "model_checking",
        "explicit-state exploration of the hash-cons table: every ordered pair (thorough: + triples per group) of build requests from a pool, results kept alive, table emptied between histories; deep-descriptor oracle",
        "Pool of ~210 (thorough ~290) requests: plain / annotated leaves at widths 1, 8, 64 with annotation field values "
        "whose Python hashes collide (-1/-2, 0/2^61-1, 1/2^61), user annotation classes with constant / default / "
        "shared-recipe hashes, BVV with annotations= vs annotate(), depth-1 operations with annotated operands, "
        "FP / string / Bool leaves and serialisation-aliasing candidates. O1: returned object has the requested "
        "descriptor; O2: equal descriptors with ==-equal annotations are one object.",
        "Annotation contents = type + instance fields. Known finding: annotations are keyed by hash() (exact case lists).",
        "DESIGN.md §2 C06",
    ),
    "C07": (
        "model_checking",
        "explicit-state BFS over expressions (E1) with annotated leaf variants on the real constructors; annotation-contract monitor on every transition; exhaustive enumeration of annotated constraint lists on the solver frontends",
        "E1 at widths 1-2 (thorough +3, 8) to depth 2 where variables and constants also occur with eliminatable / "
        "non-eliminatable / relocatable annotations: on every transition the non-eliminatable annotations reachable in "
        "the arguments stay reachable and the relocatable ones are on the result; claripy.simplify keeps top and "
        "relocatable annotations; every <=2 (3) constraint list x annotation kind x pre-query on Solver, "
        "SolverComposite, SolverHybrid, SolverReplacement: avoidance-annotated constraints are the same object after "
        "simplify() and the model set is unchanged.",
        "Eliminatable annotations may vanish at any time. Relocatable = present on the result node itself.",
        "DESIGN.md §2 C07",
    ),
    "C08": (
        "model_checking",
        "bounded-exhaustive enumeration of utility calls over E1 states as inputs (every sub-AST x partner for replace, all pool pairs for identical, all case lists / key sets for the ITE builders); truth-table oracle",
        "replace on every (input, sub-AST, same-sort partner), replace_dict maps, canonicalize, excavate_ite / burrow_ite "
        "(twice, both orders) on all depth-1 E1 states, a strided family of depth-2 states and nested If trees at "
        "widths 1-2 (thorough 1-3); identical on all pairs of a ~300-state pool; ite_cases for all case lists of "
        "length <= 3, reverse_ite_cases, ite_dict for key sets of size 0-6; chop / get_byte / get_bytes at widths 8-24.",
        "identical(): only True answers are judged. Byte widths use a byte-atom value alphabet.",
        "DESIGN.md §2 C08",
    ),
    "C09": (
        "model_checking",
        "explicit-state BFS over expressions (E1) with the Z3 round trip applied to every distinct state; exhaustive enumeration of Z3 declaration kinds x operand shapes for the reverse operator map; enumeration of constraint lists for Solver.simplify; truth-table / ground-evaluation oracle",
        "(a) every distinct symbolic E1 state (widths 1-3, thorough 1-4 depth 2) through claripy.simplify twice and "
        "backends.z3.simplify, plus an FP expression family (all rounding modes, fpIsNaN / fpIsInf) compared over the FP "
        "alphabet; (b) every BV / Bool Z3 declaration kind buildable through the z3 API abstracted back and compared under "
        "every assignment, judged for kinds the translation produces or the simplifier emitted; (c) every constraint list "
        "of <= 2 (3) constraints x pre-query on five frontend classes: model set unchanged by simplify().",
        "Reverse-map mismatches on kinds never produced nor emitted (bvsmod, repeat, n-ary distinct) are reported as latent in the evidence, not as violations.",
        "DESIGN.md §2 C09",
    ),
    "C24": (
        "model_checking",
        "explicit-state BFS over expressions (E1) whose variables carry strided-interval annotations, one traversal per interval pair; concretisation-containment oracle over all admissible assignments; local-soundness blame analysis",
        "For every ordered pair of an interval alphabet (wrapping, strided, constant, TOP forms) at widths 1-3 "
        "(thorough 1-4, depth 2): every distinct AST converted by backends.vsa.convert must contain every value / truth "
        "value the expression takes with x, y inside their intervals; SolverVSA and SolverHybrid(exact=False) min / max "
        "/ eval / solution on depth-1 states against the same sets.",
        "Failures whose cause is an interval transfer function that is locally unsound on its abstract operands are C21's "
        "(counted as excused); division by a possibly-zero divisor is skipped; free Bool variables are unsupported by the VSA backend (counted).",
        "DESIGN.md §2 C24",
    ),
    "C25": (
        "model_checking",
        "bounded-exhaustive enumeration of constraints (comparison x shape x constant / variable right-hand side, plus pairwise connectives) with every satisfying assignment enumerated; concretisation-membership oracle",
        "10 comparisons x ~60-150 shapes (add / sub / extract with all bounds / concat / zero- and sign-extension / and / or "
        "/ xor / shifts / If / two-variable forms, all constants) x all right-hand sides at widths 2-3 (thorough 2-4 and 8), "
        "variables plain or interval-annotated, plus negations / conjunctions / disjunctions of pairs: constraint_to_si "
        "must report sat and every returned bound must contain the bounded expression's value for every satisfying assignment.",
        "constraint_to_si is history-dependent (fresh names feed AST hashes): every job runs in a freshly forked process. "
        "Known finding: the balancer ignores modular wrap-around (exact case lists).",
        "DESIGN.md §2 C25",
    ),
    "C26": (
        "exploration",
        "bounded-exhaustive enumeration of pinning constraint sets over value alphabets (BV boundary values at 6 widths, FP boundary patterns of both sorts, string alphabet) x expressions x query kinds on the real frontends; membership oracle (feasible set known by construction)",
        "Every value returned by eval (n = 1, 3, 300) / batch_eval / min / max for x, x+1, ~x, extensions, extracts, "
        "concatenations under equality / disjunction / range pins at widths 1, 8, 64, 65 (thorough +2, 128, 256); for f, "
        "-f, |f| and the pattern read back under bit-pattern and IEEE-equality pins over the FP alphabet; for s, s+s, "
        "StrLen, StrSubstr under equality pins over the string alphabet; directly, after branch() and from the cache; "
        "floats compared by bit pattern.",
        "Exhaustive over the stated alphabets and pin shapes only; every solver runs in a fresh thread (fresh Z3 context).",
        "DESIGN.md §2 C26",
    ),
    "C20": (
        "model_checking",
        "stateless preemption-bounded exploration of real threads under a baton scheduler (call granularity): every schedule with <= 1 (some configurations 2) preemptions executed to completion",
        "2 (also 3) real threads, each running a 2-5 event solver history on its own solver over shared expressions and "
        "expressions built inside the threads; scheduling point = entry of ~75 functions of Backend / BackendZ3 / "
        "FullFrontend / Base that touch shared or thread-local state; oracle: brute-force answers (C11), equality with "
        "the history run alone, and an ownership monitor (Z3 context, conversion caches and solver belong to the thread).",
        "Calls between two scheduling points are atomic under the cooperative scheduler: races inside Z3 or at bytecode "
        "granularity are out of reach. Executions run in one process with the cyclic GC off after warm-up (deterministic "
        "replay; a prefix that does not replay is re-run in a forked child).",
        "DESIGN.md §1.4, §2 C20",
    ),
}

NOT_YET = "check not built yet in this session (planned; see DESIGN.md §2)"


def main():
    props = [json.loads(l) for l in open(os.path.join(ROOT, "properties.jsonl"))]
    checks = []
    na = []
    for p in props:
        pid = p["id"]
        if pid in CHECKS and os.path.exists(os.path.join(ROOT, "mc", "checks", pid.lower() + ".py")):
            level, tech, text, note, ref = CHECKS[pid]
            checks.append(
                {
                    "property_id": pid,
                    "quick_cmd": f"/venv/bin/python check.py {pid} --tier quick",
                    "thorough_cmd": f"/venv/bin/python check.py {pid} --tier thorough",
                    "evidence_file": f"/verif/evidence/{pid}.json",
                    "replay_cmd_template": f"/venv/bin/python check.py {pid} --replay {{path}}",
                    "engine": "mc",
                    "level_claimed": {"category": level, "text": text, "design_ref": ref},
                    "level_note": note,
                    "technique": tech,
                }
            )
        else:
            na.append({"property_id": pid, "reason": NOT_YET})
    man = {
        "version": 1,
        "setup_cmd": "/venv/bin/python tools/setup_check.py",
        "hooks": {
            "guard": "CLARIPY_VERIF",
            "enable": "none needed: the harness substitutes module globals at run time (DESIGN.md §1.7); "
            "claripy is an editable install, so checks import /repo's working tree directly",
            "baseline_off_cmd": "cd /repo && /venv/bin/python -m pytest -ra -q -p no:cacheprovider --timeout=900 "
            "--continue-on-collection-errors",
            "source_commits": [],
            "add_only": True,
        },
        "engines": [
            {
                "name": "mc",
                "path": "/verif/mc",
                "serves_properties": [c["property_id"] for c in checks],
                "kind_free_text": "hand-written explicit-state / bounded-exhaustive explorers in Python driving the real "
                "claripy code (expression BFS, value-domain closures, solver-history search with fault injection, "
                "controlled thread scheduler); reference models in plain Python",
            }
        ],
        "checks": checks,
        "not_applicable": na,
        "notes": "All checks: /venv/bin/python check.py <ID> --tier quick|thorough. Known findings: known_findings.jsonl "
        "(+ known/ case lists). Seeded changes: seeded/.",
    }
    with open(os.path.join(ROOT, "MANIFEST.json"), "w") as f:
        json.dump(man, f, indent=1)
    print(f"MANIFEST.json: {len(checks)} checks, {len(na)} not claimed")


if __name__ == "__main__":
    main()
