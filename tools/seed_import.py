#!/venv/bin/python
"""Import verified seeded changes produced by independent sub-agents (scratch output under /tmp/wt_out/<TAG>/)
into /verif/seeded/<TAG>-m<k>/: patch.diff, demo.py, notes.md, meta.json.  A change is imported only if the
verification log shows: demo passes on the unchanged tree, fails with the change, full test suite passes with it."""
import json, os, re, shutil, sys

SRC = "/tmp/wt_out"
DST = os.path.join(os.path.dirname(os.path.dirname(os.path.abspath(__file__))), "seeded")


def main():
    tags = sys.argv[1:] or sorted(d for d in os.listdir(SRC) if os.path.isdir(os.path.join(SRC, d)))
    for tag in tags:
        for k in (1, 2, 3, 4):
            base = os.path.join(SRC, tag, f"m{k}")
            if not os.path.exists(base + ".diff"):
                continue
            ver = open(base + ".verify").read() if os.path.exists(base + ".verify") else ""
            ok = "demo_clean_rc=0" in ver and "demo_mutant_rc=1" in ver and re.search(r"\b331 passed", ver) and "failed" not in ver.split("== tests")[-1]
            if not ok:
                print(f"{tag} m{k}: NOT verified, skipped ({ver.strip()[-120:]!r})")
                continue
            d = os.path.join(DST, f"{tag}-m{k}")
            os.makedirs(d, exist_ok=True)
            shutil.copy(base + ".diff", os.path.join(d, "patch.diff"))
            shutil.copy(base + "_demo.py", os.path.join(d, "demo.py"))
            if os.path.exists(base + ".md"):
                shutil.copy(base + ".md", os.path.join(d, "notes.md"))
            notes = open(base + ".md").read() if os.path.exists(base + ".md") else ""
            mp = os.path.join(d, "meta.json")
            meta = json.load(open(mp)) if os.path.exists(mp) else {}
            pid = tag[:3]
            meta.update(
                {
                    "property": pid,
                    "origin": "independent sub-agent given only the property text and a scratch worktree",
                    "files_touched": sorted(set(re.findall(r"^\+\+\+ b/(\S+)", open(base + ".diff").read(), re.M))),
                    "needs_to_manifest": notes.strip()[:1200],
                    "confirmed": {
                        "how": "scratch worktree of /repo: demo on the unchanged tree, git apply patch.diff, demo again, full test suite "
                        "(/venv/bin/python -m pytest -q -p no:cacheprovider -n 6 --timeout=900), git checkout -- .",
                        "demo_on_unchanged_tree_exit": 0,
                        "demo_with_change_exit": 1,
                        "test_suite_with_change": (re.search(r"\d+ passed[^\n]*", ver) or [""])[0] if ver else "",
                    },
                }
            )
            lines = [l.strip(" #*-") for l in notes.splitlines() if l.strip(" #*-")]
            meta["summary"] = " ".join(lines[:3])[:300]
            meta.setdefault("checks_run", {})
            json.dump(meta, open(mp, "w"), indent=1)
            print(f"{tag} m{k}: imported")


if __name__ == "__main__":
    main()
