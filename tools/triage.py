#!/venv/bin/python
"""Development aid: turn a failure dump (VERIF_DUMP_FAILURES=...) into known-findings entries.

usage: tools/triage.py <PID> <dump.gz> [--tier thorough] [--desc-file descs.json]
Writes known/<PID>/<slug>.txt.gz (one case per line) and prints/updates known_findings.jsonl
entries for <PID> (existing entries of the same (property, sig) are replaced; quick files are kept
when adding thorough ones).  Never run by a check.
"""
import gzip, json, os, sys, collections

ROOT = os.path.dirname(os.path.dirname(os.path.abspath(__file__)))
sys.path.insert(0, ROOT)
from mc.common import _slug  # noqa: E402


def main():
    pid, dump = sys.argv[1], sys.argv[2]
    tier = "thorough" if "--tier" in sys.argv and sys.argv[sys.argv.index("--tier") + 1] == "thorough" else "quick"
    descs = {}
    dpath = os.path.join(ROOT, "known", pid, "descs.json")
    if os.path.exists(dpath):
        descs = json.load(open(dpath))
    by = collections.defaultdict(list)
    wit = {}
    with gzip.open(dump, "rt") as f:
        for line in f:
            r = json.loads(line)
            by[r["sig"]].append(r["case"])
            wit.setdefault(r["sig"], r)
    os.makedirs(os.path.join(ROOT, "known", pid), exist_ok=True)
    kf = os.path.join(ROOT, "known_findings.jsonl")
    lines = open(kf).read().splitlines() if os.path.exists(kf) else []
    keep, old = [], {}
    for l in lines:
        if l.startswith("{"):
            e = json.loads(l)
            if e.get("property") == pid:
                old[e["sig"]] = e
                continue
        keep.append(l)
    new_entries = []
    slugs = {}
    for sig in by:
        if slugs.setdefault(_slug(sig), sig) != sig:
            sys.exit(f"two signatures map to one file name: {sig!r} and {slugs[_slug(sig)]!r} - rename one")
    for sig in sorted(by):
        cases = sorted(set(by[sig]))
        e = old.get(sig, {"property": pid, "sig": sig})
        quick_cases = set()
        if tier == "thorough" and "cases_file" in e:
            with gzip.open(os.path.join(ROOT, e["cases_file"]), "rt") as cf:
                quick_cases = {l.rstrip("\n") for l in cf}
            cases = [c for c in cases if c not in quick_cases]
        suffix = ".thorough" if tier == "thorough" else ""
        rel = f"known/{pid}/{_slug(sig)}{suffix}.txt.gz"
        if cases or tier == "quick":
            with gzip.open(os.path.join(ROOT, rel), "wt", compresslevel=9) as cf:
                cf.write("\n".join(cases) + "\n")
            e["cases_file_thorough" if tier == "thorough" else "cases_file"] = rel
        e["n_cases_" + tier] = len(cases)
        e["desc"] = descs.get(sig) or descs.get(sig.split(":")[0]) or e.get("desc") or "see witness"
        w = wit[sig]
        e.setdefault("witness", {"case": w["case"], "detail": w["detail"]})
        new_entries.append(e)
    # entries of this property that were not re-observed stay (they may belong to the other tier)
    for sig, e in old.items():
        if sig not in by:
            new_entries.append(e)
    with open(kf, "w") as f:
        f.write("\n".join(keep + [json.dumps(e, default=str) for e in sorted(new_entries, key=lambda e: e["sig"])]) + "\n")
    print(f"{pid}: {len(by)} sigs, {sum(len(set(v)) for v in by.values())} cases ({tier})")


if __name__ == "__main__":
    main()
