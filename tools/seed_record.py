#!/venv/bin/python
"""Record evaluation results (output of tools/try_mutant_wt.sh / try_mutant.sh) in seeded/<name>/meta.json.
usage: tools/seed_record.py <name> <eval-output-file> [note]"""
import json, os, re, sys

ROOT = os.path.dirname(os.path.dirname(os.path.abspath(__file__)))
name, path = sys.argv[1], sys.argv[2]
note = sys.argv[3] if len(sys.argv) > 3 else None
k = name.split("-m")[1]
mp = os.path.join(ROOT, "seeded", name, "meta.json")
m = json.load(open(mp))
txt = open(path).read()
for mm in re.finditer(r"^== (\S+) (C\d\d) rc=(\d+)\s+(\d+) violation lines\s+(\d+)s", txt, re.M):
    diff, pid, rc, nv, secs = mm.groups()
    if not re.search(rf"m{k}(_rebased)?\.diff$", diff):
        continue
    old = m.setdefault("checks_run", {}).get(pid)
    if old is not None and old.get("rc") == 0 and int(rc) == 1:
        m.setdefault("checks_run_before_strengthening", {})[pid] = old
    m["checks_run"][pid] = {
        "tier": "quick",
        "rc": int(rc),
        "violations": int(nv),
        "seconds": int(secs),
        "how": "tools/try_mutant_wt.sh: patch applied in a scratch worktree of /repo at HEAD, check.py run with PYTHONPATH=<worktree>, worktree reverted",
    }
if note:
    m["note"] = note
json.dump(m, open(mp, "w"), indent=1)
print(name, m.get("checks_run"))
