#!/venv/bin/python
"""usage: tools/newsigs.py <PID> <dump.gz> : signatures in the dump that known_findings.jsonl does not list for PID"""
import gzip, json, sys, os, collections
ROOT = os.path.dirname(os.path.dirname(os.path.abspath(__file__)))
pid, dump = sys.argv[1], sys.argv[2]
known = set()
for l in open(os.path.join(ROOT, "known_findings.jsonl")):
    if l.startswith("{"):
        e = json.loads(l)
        if e["property"] == pid:
            known.add(e["sig"])
c = collections.Counter(); ex = {}
for l in gzip.open(dump, "rt"):
    r = json.loads(l); c[r["sig"]] += 1; ex.setdefault(r["sig"], r)
for s, n in sorted(c.items()):
    flag = "" if s in known else "NEW-SIG"
    print(f"{n:8d} {flag:8s} {s} | {ex[s]['case'][:90]} | {json.dumps(ex[s]['detail'], default=str)[:160]}")
