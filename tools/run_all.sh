#!/bin/bash
# usage: tools/run_all.sh [quick|thorough]   -- runs every registered check once, one summary line each
cd "$(dirname "$0")/.."
tier=${1:-quick}
for p in $(/venv/bin/python -c "import json;print(' '.join(c['property_id'] for c in json.load(open('MANIFEST.json'))['checks']))"); do
  out=$(/venv/bin/python check.py $p --tier $tier 2>&1); rc=$?
  echo "$p rc=$rc $(echo "$out" | tail -1 | cut -c1-160)"
done
