#!/venv/bin/python
"""MANIFEST.setup_cmd: nothing to build (pure Python, claripy is an editable install of /repo).
Verifies that the interpreter, claripy and z3 import, and that check.py is runnable."""
import os
import sys

sys.path.insert(0, os.path.dirname(os.path.dirname(os.path.abspath(__file__))))
import claripy  # noqa: E402
import z3  # noqa: E402

import mc.refsem  # noqa: E402,F401

print("claripy from", os.path.dirname(claripy.__file__), "z3", z3.get_version_string())
os.makedirs(os.path.join(os.path.dirname(os.path.dirname(os.path.abspath(__file__))), "evidence"), exist_ok=True)
print("setup ok")
