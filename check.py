#!/venv/bin/python
"""Single entry point:  check.py <ID> [--tier quick|thorough] [--replay FILE]

exit 0 = property held on everything explored (KNOWN-FINDING lines allowed),
exit 1 = `VIOLATION property=<ID> replay=<file>` printed, exit 2 = the harness itself is broken.
"""

from __future__ import annotations

import argparse
import importlib
import os
import sys

HERE = os.path.dirname(os.path.abspath(__file__))


def main():
    ap = argparse.ArgumentParser()
    ap.add_argument("pid")
    ap.add_argument("--tier", default=os.environ.get("VERIF_TIER", "quick"), choices=["quick", "thorough"])
    ap.add_argument("--replay", default=None)
    args = ap.parse_args()

    # deterministic hashing for every process we start (must be set before the interpreter starts)
    if os.environ.get("PYTHONHASHSEED") != "0":
        os.environ["PYTHONHASHSEED"] = "0"
        os.execv(sys.executable, [sys.executable, os.path.abspath(__file__), *sys.argv[1:]])

    sys.path.insert(0, HERE)
    os.chdir(HERE)
    import faulthandler
    import logging
    import signal

    faulthandler.register(signal.SIGUSR1, all_threads=True)  # kill -USR1 <pid> dumps every thread's stack

    logging.disable(logging.CRITICAL)  # claripy logs warnings on the paths we exercise on purpose

    pid = args.pid.upper()
    mod = importlib.import_module(f"mc.checks.{pid.lower()}")
    if args.replay:
        rc = mod.replay(args.replay)
    else:
        rc = mod.run(args.tier)
    sys.stdout.flush()
    sys.exit(rc)


if __name__ == "__main__":
    main()
